---------------------------- MODULE MapBlocksMC ----------------------------
(* Case enumeration + design check for C35 (spec -> code).  An initial state
   picks a family and the dominant input array (every chunking of every shape in
   Shapes); Next expands it into the cases of that family - second inputs,
   drop_axis / new_axis / chunks / keyword variants (map_blocks), index patterns
   (blockwise), signatures and chunk layouts (apply_gufunc) - thinned by a
   seeded, deterministic hash.  Each case state carries, in `out`, the case and
   what module MapBlocks demands for it.                                       *)
EXTENDS MapBlocks, Json

CONSTANTS Fams,     \* subset of {"mb", "bw", "gu"}
          Shapes,   \* shapes of the dominant input
          ZeroShapes, \* shapes whose first axis is additionally chunked with one zero-width chunk (map_blocks, blockwise)
          Mods,     \* [mb |-> m, bw |-> m, gu |-> m]: keep a case iff its hash is 0 modulo m
          Salt

VARIABLES base, case, out

Arr(chunks) == [shape |-> ShapeOf(chunks), chunks |-> chunks]

\* ---------------------------------------------------------------- hashing (only spreads the sample)
RECURSIVE HSeq(_, _)
HSeq(s, m) == IF Len(s) = 0 THEN 0 ELSE (Head(s) * m + HSeq(Tail(s), m + 2)) % 9973
HArr(a) == (HSeq(a.shape, 3) + SumSeq([d \in DOMAIN a.chunks |-> Len(a.chunks[d]) * (5 + d) + HSeq(a.chunks[d], 7)])) % 9973
HArrs(as) == SumSeq([i \in DOMAIN as |-> HArr(as[i]) * (i + 10)]) % 9973
HStr(s) == CASE s = "none" -> 1 [] s = "same" -> 2 [] s = "first" -> 3 [] s = "both" -> 4 [] s = "id" -> 5 [] s = "info" -> 6
             [] s = "i" -> 7 [] s = "j" -> 8 [] s = "k" -> 9 [] s = "s1" -> 11 [] s = "s2" -> 12 [] s = "s3" -> 13
             [] s = "s4" -> 14 [] s = "s5" -> 15 [] s = "s6" -> 16 [] s = "dbl" -> 18 [] s = "int3" -> 19 [] s = "inc" -> 20 [] OTHER -> 17
HStrs(ss) == HSeq([i \in DOMAIN ss |-> HStr(ss[i])], 3)
B2I(b) == IF b THEN 1 ELSE 0
Keep(h, fam) == ((h + Salt) % Mods[fam]) = 0

\* ---------------------------------------------------------------- second inputs derived from the dominant one
\* per axis: same chunks | one block of the same extent | one block of extent 1 | as many blocks, all of size 1
AxisOpts(ch) == {ch, <<SumSeq(ch)>>, <<1>>, [k \in DOMAIN ch |-> 1]}
RECURSIVE AxesOpts(_)
AxesOpts(chs) == IF Len(chs) = 0 THEN {<<>>} ELSE {<<h>> \o t : h \in AxisOpts(Head(chs)), t \in AxesOpts(Tail(chs))}
\* right-aligned seconds of rank nd or nd - 1
Seconds(a) == LET nd == ND(a) IN
              {Arr(x) : x \in AxesOpts(a.chunks)} \cup
              (IF nd > 1 THEN {Arr(x) : x \in AxesOpts(Tail(a.chunks))} ELSE {})

\* ---------------------------------------------------------------- map_blocks cases
Drops(nd) == {<<>>} \cup {<<d>> : d \in 0..(nd - 1)} \cup (IF nd = 2 THEN {<<0, 1>>} ELSE {})
NewAxes(kept) == {<<>>, <<0>>, <<kept>>} \cup (IF kept >= 1 THEN {<<0, 2>>} ELSE {})
ChunkOpts(newax) == {<<1, "none">>, <<1, "same">>, <<1, "first">>} \cup (IF Len(newax) > 0 THEN {<<2, "same">>} ELSE {})
MbCase(arrs, dom, drop, newax, co, kw) ==
  [fam |-> "mb", arrs |-> arrs, dom |-> dom, drop |-> drop, newax |-> newax, nsz |-> co[1], chk |-> co[2], kw |-> kw]
MbHash(c) == (HArrs(c.arrs) + c.dom * 29 + HSeq(c.drop, 11) * 3 + Len(c.drop) * 31 + HSeq(c.newax, 13) * 5 + Len(c.newax) * 37
              + c.nsz * 17 + HStr(c.chk) * 19 + HStr(c.kw) * 23) % 9973
MbCases(a) ==
  LET nd == ND(a)
      arrss == {<<<<a>>, 1>>} \cup {<<<<a, b>>, 1>> : b \in Seconds(a)} \cup {<<<<b, a>>, 2>> : b \in Seconds(a)}
  IN { c \in UNION { UNION { UNION { { MbCase(x[1], x[2], drop, newax, co, kw) : co \in ChunkOpts(newax), kw \in {"both", "none", "id", "info"} }
                                      : newax \in NewAxes(nd - Len(drop)) }
                             : drop \in Drops(nd) }
                     : x \in arrss }
       : Keep(MbHash(c), "mb") /\ MbValid(c) }

\* ---------------------------------------------------------------- blockwise cases
\* patterns: index string of the dominant array, of the second one (<<>> = none), output index, new index
Pat(ia, ib, oi, nw) == [ia |-> ia, ib |-> ib, oi |-> oi, nw |-> nw]
BwPats == { Pat(<<"i">>, <<>>, <<"i">>, <<>>), Pat(<<"i">>, <<>>, <<"i", "j">>, <<"j">>), Pat(<<"i">>, <<>>, <<>>, <<>>),
            Pat(<<"i">>, <<"i">>, <<"i">>, <<>>), Pat(<<"i">>, <<"j">>, <<"i", "j">>, <<>>), Pat(<<"i">>, <<"i">>, <<>>, <<>>),
            Pat(<<"i", "j">>, <<>>, <<"i", "j">>, <<>>), Pat(<<"i", "j">>, <<>>, <<"j", "i">>, <<>>),
            Pat(<<"i", "j">>, <<>>, <<"i">>, <<>>), Pat(<<"i", "j">>, <<>>, <<"j">>, <<>>), Pat(<<"i", "i">>, <<>>, <<"i">>, <<>>),
            Pat(<<"i", "j">>, <<>>, <<"k", "i", "j">>, <<"k">>),
            Pat(<<"i", "j">>, <<"i", "j">>, <<"i", "j">>, <<>>), Pat(<<"i", "j">>, <<"j">>, <<"i", "j">>, <<>>),
            Pat(<<"i", "j">>, <<"j", "i">>, <<"i", "j">>, <<>>), Pat(<<"i", "j">>, <<"j", "k">>, <<"i", "k">>, <<>>),
            Pat(<<"i", "j">>, <<"j">>, <<"i">>, <<>>), Pat(<<"i", "j">>, <<"i", "j">>, <<"j">>, <<>>) }
\* chunks of the second array: per index, derived from the dominant array's axis with that index, or from a menu
FreshOpts == {<<2>>, <<1, 1>>, <<1, 2>>}
RECURSIVE BwSecond(_, _, _)
BwSecond(a, ia, ib) ==
  IF Len(ib) = 0 THEN {<<>>}
  ELSE LET qs == {q \in DOMAIN ia : ia[q] = Head(ib)}
           opts == IF qs = {} THEN FreshOpts
                   ELSE LET ch == a.chunks[CHOOSE q \in qs : TRUE] IN {ch, <<SumSeq(ch)>>, <<1>>}
       IN {<<h>> \o t : h \in opts, t \in BwSecond(a, ia, Tail(ib))}
BwCase(arrs, inds, oi, conc, nax, adj) ==
  [fam |-> "bw", arrs |-> arrs, inds |-> inds, oi |-> oi, conc |-> conc, nax |-> nax, adj |-> adj[1], adjk |-> adj[2]]
BwHash(c) == (HArrs(c.arrs) + HStrs(c.oi) * 7 + Len(c.oi) * 41 + SumSeq([i \in DOMAIN c.inds |-> HStrs(c.inds[i]) * (i + 2)]) + B2I(c.conc) * 3
              + Len(c.adj) * 5 + HStr(c.adjk) * 43 + SumSeq([q \in DOMAIN c.nax |-> c.nax[q].sz * 11])) % 9973
BwCases(a) ==
  { c \in UNION { UNION { { BwCase(IF Len(p.ib) = 0 THEN <<a>> ELSE <<a, Arr(bch)>>,
                                   IF Len(p.ib) = 0 THEN <<p.ia>> ELSE <<p.ia, p.ib>>,
                                   p.oi, conc, [q \in DOMAIN p.nw |-> [ix |-> p.nw[q], sz |-> sz]], adj)
                            : conc \in BOOLEAN, sz \in (IF Len(p.nw) = 0 THEN {1} ELSE {1, 2}), adj \in ({<< <<>>, "dbl" >>} \cup (IF Len(p.oi) > 0 THEN {<< <<p.oi[1]>>, k >> : k \in {"dbl", "int3", "inc"}} ELSE {})) }
                          : bch \in BwSecond(a, p.ia, p.ib) }
                  : p \in {q \in BwPats : Len(q.ia) = ND(a)} }
    : Keep(BwHash(c), "bw") /\ BwValid(c)
      \* concatenate only matters with a contraction; the new-axis size only with a new axis
      /\ (c.conc => \E i \in DOMAIN c.inds : \E q \in DOMAIN c.inds[i] : c.inds[i][q] \notin RangeOf(c.oi)) }

\* ---------------------------------------------------------------- gufunc cases
\* second operands for s3 / s4: core dims fixed by the signature, loop dims same / broadcast / absent
GuSeconds(sig, a) ==
  LET nc1 == NCore(sig)[1]
      loopch == SubSeq(a.chunks, 1, ND(a) - nc1)
      lastch == a.chunks[ND(a)]
      loops == AxesOpts(loopch) \cup {<<>>}
  IN { Arr(l \o <<lc>>) : l \in loops, lc \in {lastch, <<SumSeq(lastch)>>} }
GuCase(sig, arrs, vec, re) == [fam |-> "gu", sig |-> sig, arrs |-> arrs, K |-> 2, vec |-> vec, rechunk |-> re]
GuHash(c) == (HArrs(c.arrs) + HStr(c.sig) * 7 + B2I(c.vec) * 3 + B2I(c.rechunk) * 5) % 9973
GuCases(a) ==
  { c \in UNION { { GuCase(sig, IF Len(NCore(sig)) = 1 THEN <<a>> ELSE <<a, b>>, vec, re)
                    : b \in (IF Len(NCore(sig)) = 1 THEN {a} ELSE GuSeconds(sig, a)), vec \in BOOLEAN, re \in BOOLEAN }
                  : sig \in {s \in {"s1", "s2", "s3", "s4", "s5", "s6"} : ND(a) >= NCore(s)[1]} }
    : Keep(GuHash(c), "gu") /\ GuShapesOK(c) }

CasesOf(b) == CASE b.fam = "mb" -> MbCases(b.a) [] b.fam = "bw" -> BwCases(b.a) [] b.fam = "gu" -> GuCases(b.a)

NoCase == [fam |-> "none"]
ZeroChunkings(sh) == { <<z>> \o r : z \in WithOneZero(Head(sh)), r \in NDChunkings(Tail(sh)) }
Init == /\ base \in UNION { { [fam |-> f, a |-> Arr(ch)] : ch \in NDChunkings(sh), f \in Fams } : sh \in Shapes }
                  \cup UNION { { [fam |-> f, a |-> Arr(ch)] : ch \in ZeroChunkings(sh), f \in Fams \ {"gu"} } : sh \in ZeroShapes }
        /\ case = NoCase /\ out = ""
Next == /\ case = NoCase
        /\ \E c \in CasesOf(base) : case' = c /\ out' = ToJson([c |-> c, e |-> Expect(c)])
        /\ UNCHANGED base

\* ---------------------------------------------------------------- design check of the reference itself
IsCase == case # NoCase
E == Expect(case)
\* every cell of the dominant input that is not dropped away reaches exactly one returned block cell (map_blocks,
\* no "first" thinning, new axes of size 1): the returned blocks tile the reduced input
MbTiles == (IsCase /\ case.fam = "mb" /\ E.ok /\ case.chk # "first" /\ case.nsz = 1) =>
  LET all == [k \in DOMAIN E.calls |-> E.calls[k].ret.cells]
      n   == SumSeq([k \in DOMAIN all |-> Len(all[k])])
  IN /\ Cardinality(UNION {RangeOf(all[k]) : k \in DOMAIN all}) = n
     /\ n * ProdSeq([d \in DOMAIN case.drop |-> case.arrs[case.dom].shape[case.drop[d] + 1]]) = Size(case.arrs[case.dom].shape)
\* the argument views of all calls cover every input completely (nothing is never handed to the function)
\* (except with a repeated index such as "ii": only the diagonal blocks are read)
NoRepeat == case.fam = "mb" \/ \A i \in DOMAIN case.inds : \A p, q \in DOMAIN case.inds[i] : p # q => case.inds[i][p] # case.inds[i][q]
ArgsCover == (IsCase /\ case.fam \in {"mb", "bw"} /\ E.ok /\ NoRepeat) =>
  \A i \in DOMAIN case.arrs :
     UNION {ViewCells(E.calls[k].args[i]) : k \in DOMAIN E.calls}
       = {IdBase * (i - 1) + p : p \in 0..(Size(case.arrs[i].shape) - 1)}
\* one call per output block, in row-major order of the block ids
OneCallPerBlock == (IsCase /\ case.fam \in {"mb", "bw"} /\ E.ok) =>
  /\ Len(E.calls) = ProdSeq(E.onb)
  /\ \A k1, k2 \in DOMAIN E.calls : k1 # k2 => E.calls[k1].bid # E.calls[k2].bid
\* gufunc outputs have as many cells as their shape says
GuSizes == (IsCase /\ case.fam = "gu" /\ (E.ok \/ E.soft)) => \A o \in DOMAIN E.outs : Len(E.outs[o].cells) = Size(E.outs[o].shape)
=============================================================================
