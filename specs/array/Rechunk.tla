------------------------------ MODULE Rechunk ------------------------------
(* C23 - chunk normalization and rechunking are exact.

   Part 1 (Pattern B, contract): dask.array.core.normalize_chunks.
   A chunk specification is, per axis, one of
       [k |-> "int",   v |-> n]      blocks of n, the remainder last      (n >= 1)
       [k |-> "full"]                -1 / None / missing dict entry: one block
       [k |-> "tuple", t |-> <<..>>] explicit block sizes
       [k |-> "auto"]                "auto" or a byte string: free, within the byte limit
   (the top-level spelling - scalar, tuple, list, dict, bare 1-d tuple, byte string,
   limit via keyword or configuration - is chosen by the harness; the contract
   does not depend on it).  NormOK says exactly what the property promises about
   the result and nothing about how automatic sizes are chosen.

   Part 2 (Pattern B, contract): old_to_new / _intersect_1d - the pieces listed
   for each new block tile it exactly once, in order; plan_rechunk - every step
   is a valid chunking of the same shape and the last step is the target.

   Part 3 (Pattern C, reference): rechunk is the identity on content and yields
   exactly the requested chunks.  Arrays hold element ids (row-major position). *)
EXTENDS NDArray, TLC, Json

RECURSIVE MaxSeq(_)
MaxSeq(c) == IF Len(c) = 1 THEN c[1]
             ELSE LET m == MaxSeq(Tail(c)) IN IF Head(c) >= m THEN Head(c) ELSE m

-----------------------------------------------------------------------------
(* Part 1: normalize_chunks *)

\* blocks of k along an axis of length n, remainder last; an empty axis is (0,)
Uniform(n, k) == IF n = 0 THEN <<0>>
                 ELSE [j \in 1..((n + k - 1) \div k) |-> IF j * k <= n THEN k ELSE n - (j - 1) * k]

\* what the statement demands of every axis that dask chooses itself:
\* positive sizes (or a single zero for an empty axis) adding up to the extent
StrictAxis(n, c) == IF n = 0 THEN c = <<0>>
                    ELSE /\ Len(c) >= 1
                         /\ \A i \in DOMAIN c : c[i] \in Nat /\ c[i] >= 1
                         /\ SumSeq(c) = n

\* an explicit tuple that does not add up to the extent cannot be honoured: any
\* exception is the only acceptable outcome
NormExpectErr(shape, spec) ==
  \E d \in DOMAIN shape : spec[d].k = "tuple" /\ SumSeq(spec[d].t) # shape[d]

IsAuto(s) == s.k = "auto"

\* the block sizes an explicit component demands
ExplicitAxis(n, s) == CASE s.k = "int"   -> Uniform(n, s.v)
                        [] s.k = "full"  -> <<n>>
                        [] s.k = "tuple" -> s.t

\* largest block (in elements) of a chunking restricted to the axes in D
BlockOver(out, D) == ProdSeq([d \in 1..Len(out) |-> IF d \in D THEN MaxSeq(out[d]) ELSE 1])

(* The byte-limit clause.  "Automatic chunks stay within the byte limit whenever
   a single element fits": with explicit axes mixed in, the smallest block dask
   could possibly choose is (explicit block) x 1 x ... x 1, so the clause applies
   whenever that block fits.  tol = <<num, den>> is the configured
   array.chunk-size-tolerance, which dask documents as the factor by which
   chunks derived from previous_chunks may exceed the target; the harness passes
   <<1, 1>> when there are no previous_chunks or when it configured tolerance 1. *)
LimitOK(spec, limit, itemsize, tol, out) ==
  LET A == {d \in DOMAIN spec : IsAuto(spec[d])}
      E == DOMAIN spec \ A
  IN (A # {} /\ BlockOver(out, E) * itemsize <= limit)
       => BlockOver(out, DOMAIN spec) * itemsize * tol[2] <= limit * tol[1]

ExplicitOK(shape, spec, out) ==
  \A d \in DOMAIN shape : ~IsAuto(spec[d]) => out[d] = ExplicitAxis(shape[d], spec[d])
AutoOK(shape, spec, out) ==
  \A d \in DOMAIN shape : IsAuto(spec[d]) => StrictAxis(shape[d], out[d])

\* names of the clauses a result violates (out is only looked at when well-formed)
NormBad(shape, spec, limit, itemsize, tol, out) ==
  IF Len(out) # Len(shape) \/ \E d \in DOMAIN out : Len(out[d]) = 0 THEN {"Rank"}
  ELSE (IF ValidChunks(shape, out) THEN {} ELSE {"Sum"})
       \cup (IF ExplicitOK(shape, spec, out) THEN {} ELSE {"Explicit"})
       \cup (IF AutoOK(shape, spec, out) THEN {} ELSE {"AutoAxis"})
       \cup (IF LimitOK(spec, limit, itemsize, tol, out) THEN {} ELSE {"Limit"})

NormOK(shape, spec, limit, itemsize, tol, out) == NormBad(shape, spec, limit, itemsize, tol, out) = {}

\* a result that always satisfies the contract (all automatic axes in blocks of
\* one): shows the contract is satisfiable on every case, i.e. not over-strict
NormWitness(shape, spec) ==
  [d \in DOMAIN shape |-> IF IsAuto(spec[d]) THEN Uniform(shape[d], 1) ELSE ExplicitAxis(shape[d], spec[d])]

-----------------------------------------------------------------------------
(* Part 2: pieces and plans.  A piece is <<i, a, b>>: local slice a:b of old
   block i (0-based).  *)

PieceOK(old, p) == /\ p[1] \in 0..(Len(old) - 1)
                   /\ 0 <= p[2] /\ p[2] <= p[3] /\ p[3] <= old[p[1] + 1]
\* global positions (0-based) a piece covers, in order
PiecePos(old, p) == [q \in 1..(p[3] - p[2]) |-> Offset(old, p[1] + 1) + p[2] + q - 1]
BlockPos(c, j)   == [t \in 1..c[j] |-> Offset(c, j) + t - 1]

PiecesPos(old, ps) == FlattenSeq([q \in DOMAIN ps |-> PiecePos(old, ps[q])])

TilesOK(old, new, pieces) ==
  /\ Len(pieces) = Len(new)
  /\ \A j \in DOMAIN new :
        /\ \A q \in DOMAIN pieces[j] : PieceOK(old, pieces[j][q])
        /\ PiecesPos(old, pieces[j]) = BlockPos(new, j)

\* the canonical tiling: every old block that overlaps new block j, in order
Lo(c, j) == Offset(c, j)
Hi(c, j) == Offset(c, j) + c[j]
RefPieces(old, new) ==
  [j \in DOMAIN new |->
     LET over == SelectSeq([i \in DOMAIN old |-> i],
                           LAMBDA i : Max({Lo(old, i), Lo(new, j)}) < Min({Hi(old, i), Hi(new, j)}))
     IN [q \in DOMAIN over |->
           LET i == over[q] IN
           << i - 1, Max({Lo(old, i), Lo(new, j)}) - Lo(old, i), Min({Hi(old, i), Hi(new, j)}) - Lo(old, i) >>]]

ShapeOf(chunks) == [d \in DOMAIN chunks |-> SumSeq(chunks[d])]

PlanOK(old, new, steps) ==
  /\ Len(steps) >= 1
  /\ \A s \in DOMAIN steps : ValidChunks(ShapeOf(old), steps[s])
  /\ steps[Len(steps)] = new

-----------------------------------------------------------------------------
(* Part 3: rechunk = identity on content, chunks as requested *)

Identity(shape) == [j \in 1..Size(shape) |-> j - 1]

\* ids held by block `b` (1-based block index tuple) of a chunked identity array
BlockCells(shape, chunks, b) ==
  LET ext == [d \in DOMAIN shape |-> chunks[d][b[d]]]
      tup == IF ProdSeq(ext) = 0 THEN <<>> ELSE Cart(ext)
  IN [t \in DOMAIN tup |-> Ravel(shape, [d \in DOMAIN shape |-> Offset(chunks[d], b[d]) + tup[t][d] - 1])]

\* the same block built the way rechunk builds it: per axis, the concatenation of
\* the listed pieces of the old blocks
BlockFromPieces(shape, old, pieces, b) ==
  LET pos == [d \in DOMAIN shape |-> PiecesPos(old[d], pieces[d][b[d]])]
      ext == [d \in DOMAIN shape |-> Len(pos[d])]
      tup == IF ProdSeq(ext) = 0 THEN <<>> ELSE Cart(ext)
  IN [t \in DOMAIN tup |-> Ravel(shape, [d \in DOMAIN shape |-> pos[d][tup[t][d]]])]

Known(c) == \A j \in DOMAIN c : c[j] >= 0
MetaOK(obs) ==
  /\ Len(obs.chunks) = Len(obs.cshape)
  /\ \A a \in DOMAIN obs.chunks :
        Known(obs.chunks[a]) => /\ SumSeq(obs.chunks[a]) = obs.cshape[a]
                                /\ obs.lshape[a] = obs.cshape[a]
  /\ obs.blocksok
=============================================================================
