--------------------------- MODULE PercentileTrace ---------------------------
(* code -> spec for C32: every call of da.percentile / da.nanpercentile /
   da.nanquantile made by the harness - on the TLC-enumerated inputs and on
   seeded random larger ones - is one record, decided here.

   fam "pct":  d (data, integers), q (percents as rationals, sorted), chunks, method and the
               observation: raised, out = floor(value * 2^10) per requested percentile.
               A record is rejected iff it violates a clause of the contract.
   fam "nanq": the case fields of NanExpected and the observation in the format of
               ReductionsTrace (floats logged as the close small rational, obs.close). *)
EXTENDS Percentile, TraceIO

PctBad(r) == IF r.raised # "" THEN {"Raised"} ELSE ContractBad(r.d, r.q, r.out)

NanBad(r) ==
  LET w == NanExpected(r) IN
  IF w.err THEN Clause("ErrorExpected", r.obs.raised # "")
  ELSE IF r.obs.raised # "" THEN {"UnexpectedRaise"}
  ELSE IF r.obs.cshape # w.shape THEN {"Shape"}
  ELSE Clause("Content", r.obs.close /\ r.obs.cells = w.cells)
       \cup Clause("Kind", r.obs.kind = w.kind /\ r.obs.ckind = w.kind)
       \cup Clause("Meta", MetaOK(r.obs))

Bad(r) == IF r.fam = "pct" THEN PctBad(r) ELSE NanBad(r)

Init == TInit
Next == TNext(Bad)
=============================================================================
