------------------------------ MODULE OverlapMC ------------------------------
(* Case enumeration and design check for C26.

   A state is one case - (family, shape, per-axis depths, per-axis boundaries
   and, per family, the chunking the overlap is taken on / the stencil radius /
   the window) - with the result the reference of module Overlap demands, or
   (fam = "chunkings") the complete list of chunkings of one shape: the
   results of trim(overlap(x)), map_overlap and sliding_window_view do not
   depend on the chunking of the input - that is the property - so the harness
   runs every case under all of them.  The raw result of overlap() does depend
   on the chunking dask takes it on (which it may choose freely as long as every
   block is at least as long as the depth): fam = "overlap" enumerates every
   admissible chunking `eff` and the harness looks the expected blocks up under
   the chunking it reads off dask's result.

   TLC generates initial states in one thread and successors in parallel, so a
   case is picked in Init and evaluated in the single step it can take.       *)
EXTENDS Overlap

CONSTANTS Fams,      \* subset of {"overlap", "trim", "map", "swv", "emc"}
          Lo1, N1,   \* 1-d extents Lo1 .. N1
          CfgMode,   \* "full": the whole depth / boundary menu;  "border": the cases of the border stratum (below)
          Border,    \* > 0: also export, per depth, the border chunkings with extent <= Border
          MaxD,      \* 1-d depths 0 .. MaxD
          Shapes2,   \* set of 2-d shapes
          ZeroN,     \* chunkings with one zero-width block for extents <= ZeroN
          EmcN       \* ensure_minimum_chunksize: all chunkings of extents 1 .. EmcN

VARIABLES kase, fin, xpd, out

Shapes1 == {<<e>> : e \in Lo1..N1}

-----------------------------------------------------------------------------
(* depth / boundary configurations                                            *)
Cfg1 == {[depth |-> <<<<s, s>>>>, bnd |-> <<m>>] : s \in 1..MaxD, m \in Modes}
        \cup {[depth |-> <<<<0, 0>>>>, bnd |-> <<m>>] : m \in {"none", "periodic"}}
        \cup {[depth |-> <<<<l, r>>>>, bnd |-> <<"none">>] : l \in 0..MaxD, r \in 0..MaxD}
\* asymmetric depth with a boundary condition: documented NotImplementedError of map_overlap
Cfg1Asym == {[depth |-> <<<<1, 2>>>>, bnd |-> <<m>>] : m \in Modes \ {"none"}}

AxOpt == {<< <<0, 0>>, "none" >>}
         \cup {<< <<s, s>>, m >> : s \in 1..2, m \in Modes}
         \cup {<< <<1, 0>>, "none" >>, << <<0, 2>>, "none" >>, << <<1, 2>>, "none" >>}
Cfg2 == {[depth |-> <<p[1], q[1]>>, bnd |-> <<p[2], q[2]>>] : p \in AxOpt, q \in AxOpt}

(* The border stratum.  dask re-chunks an axis whose blocks are shorter than the depth d
   (ensure_minimum_chunksize merges a short block into its neighbours or borrows from the block
   before it); what happens depends on how the lengths around the short block compare with d and
   2d.  For every depth d the harness therefore always runs the chunkings made of two or three
   blocks with lengths from {d-1, d, d+1, 2d-1, 2d, 1, 0} in every order that contain a block
   shorter than d (first, in the middle, last), 1-d and along one axis of a 2-d array, under
   every boundary condition.  The extents this needs exceed the exhaustively chunked ones, so
   the cases of those longer shapes are enumerated with the symmetric depths (and one
   asymmetric pair without boundary) only.                                                    *)
Pieces(d) == {d - 1, d, d + 1, 2 * d - 1, 2 * d, 1, 0}
BorderSeqs(d, hi) ==
  {s \in UNION {[1..k -> Pieces(d)] : k \in 2..3} :
      /\ \E j \in DOMAIN s : s[j] < d
      /\ Cardinality({j \in DOMAIN s : s[j] = 0}) <= 1
      /\ SumSeq(s) >= d /\ SumSeq(s) >= 1 /\ SumSeq(s) <= hi}
CfgB1 == {[depth |-> <<<<s, s>>>>, bnd |-> <<m>>] : s \in 1..MaxD, m \in Modes}
         \cup {[depth |-> <<<<s, s - 1>>>>, bnd |-> <<"none">>] : s \in 1..MaxD}
\* 2-d: depth s along the long axis under every boundary; the short axis without or with one cell of the same boundary
CfgB2(sh) ==
  LET long == IF sh[1] >= sh[2] THEN 1 ELSE 2 IN
  {[depth |-> [a \in 1..2 |-> IF a = long THEN <<s, s>> ELSE <<o, o>>],
    bnd   |-> [a \in 1..2 |-> IF a = long \/ o = 1 THEN m ELSE "none"]] : s \in 1..2, m \in Modes, o \in 0..1}

Cfg(sh) == IF CfgMode = "border" THEN (IF Len(sh) = 1 THEN CfgB1 ELSE CfgB2(sh))
           ELSE IF Len(sh) = 1 THEN Cfg1 ELSE Cfg2

\* stencil radii: as wide as the depth, one narrower in front; 2-d: at most one cell per side
Rads(sh, depth) ==
  IF Len(sh) = 1
  THEN {depth} \cup (IF depth[1][1] >= 1 THEN {<<<<depth[1][1] - 1, depth[1][2]>>>>} ELSE {})
  ELSE {[d \in DOMAIN depth |-> <<Min2(depth[d][1], 1), Min2(depth[d][2], 1)>>]}
       \cup (IF Max2(depth[1][1], depth[1][2]) > 1 THEN {<<depth[1], <<0, 0>>>>} ELSE {})
       \cup (IF Max2(depth[2][1], depth[2][2]) > 1 THEN {<<<<0, 0>>, depth[2]>>} ELSE {})

-----------------------------------------------------------------------------
(* chunkings                                                                  *)
ZAxis(e) == IF e <= ZeroN THEN WithOneZero(e) ELSE {}
ZeroChunkings(sh) ==
  IF Len(sh) = 1 THEN {<<c>> : c \in ZAxis(sh[1])}
  ELSE {<<c, r>> : c \in ZAxis(sh[1]), r \in {<<sh[2]>>, [j \in 1..sh[2] |-> 1]}}
       \cup {<<c, r>> : c \in {<<sh[1]>>, [j \in 1..sh[1] |-> 1]}, r \in ZAxis(sh[2])}
ChunkingsOf(sh) == NDChunkings(sh) \cup ZeroChunkings(sh)
\* the chunkings overlap() may be taken on: the other axis of a zero-width chunking is chunked freely
EffZero(sh) ==
  IF Len(sh) = 1 THEN ZeroChunkings(sh)
  ELSE {<<c, r>> : c \in ZAxis(sh[1]), r \in Chunkings(sh[2])} \cup {<<c, r>> : c \in Chunkings(sh[1]), r \in ZAxis(sh[2])}
EffChunkings(sh, depth) == {ch \in NDChunkings(sh) \cup EffZero(sh) : EffOK(ch, depth)}

-----------------------------------------------------------------------------
(* sliding windows                                                            *)
Swv1(sh) == [fam : {"swv"}, shape : {sh}, w : {<<v>> : v \in 1..(sh[1] + 1)}, axes : {<<0>>, <<-1>>}, axnone : BOOLEAN]
            \cup [fam : {"swv"}, shape : {sh}, w : {<<1, 2>>, <<2, 2>>}, axes : {<<0, 0>>, <<0, -1>>}, axnone : {FALSE}]
            \cup [fam : {"swv"}, shape : {sh}, w : {<<0>>, <<-1>>, <<1, 1>>}, axes : {<<0>>}, axnone : {FALSE}]
WMenu(e) == {1, 2, e, e + 1}
Swv2(sh) == [fam : {"swv"}, shape : {sh}, w : {<<v, u>> : v \in WMenu(sh[1]), u \in WMenu(sh[2])}, axes : {<<0, 1>>}, axnone : BOOLEAN]
            \cup [fam : {"swv"}, shape : {sh}, w : {<<1, 2>>, <<2, 1>>, <<2, 2>>},
                  axes : {<<1, 0>>, <<0, 0>>, <<1, 1>>, <<-1, -2>>, <<1, -1>>}, axnone : {FALSE}]
            \cup UNION {[fam : {"swv"}, shape : {sh}, w : {<<v>> : v \in WMenu(sh[d])}, axes : {<<d - 1>>, <<d - 3>>}, axnone : {FALSE}]
                        : d \in 1..2}
            \cup [fam : {"swv"}, shape : {sh}, w : {<<2, 1, 2>>}, axes : {<<0, 1, 0>>, <<0, 1>>, <<2, 0, 1>>}, axnone : {FALSE}]
SwvCases(sh) == IF Len(sh) = 1 THEN Swv1(sh) ELSE Swv2(sh)

-----------------------------------------------------------------------------
AllShapes == Shapes1 \cup Shapes2

EmcChunks == UNION {Chunkings(e) \cup (IF e <= 6 THEN WithOneZero(e) ELSE {}) : e \in 1..EmcN}

NotYet == [err |-> TRUE, shape |-> <<>>, cells |-> <<>>]

Pick ==
  \/ /\ "overlap" \in Fams
     /\ \E sh \in AllShapes : \E g \in Cfg(sh) : \E ch \in EffChunkings(sh, g.depth) :
           kase = [fam |-> "overlap", shape |-> sh, depth |-> g.depth, bnd |-> g.bnd, eff |-> ch]
  \/ /\ "trim" \in Fams
     /\ \E sh \in AllShapes : \E g \in Cfg(sh) :
           kase = [fam |-> "trim", shape |-> sh, depth |-> g.depth, bnd |-> g.bnd]
  \/ /\ "map" \in Fams
     /\ \E sh \in AllShapes : \E g \in Cfg(sh) \cup (IF Len(sh) = 1 /\ CfgMode = "full" THEN Cfg1Asym ELSE {}) :
        \E rd \in Rads(sh, g.depth) :
           kase = [fam |-> "map", shape |-> sh, depth |-> g.depth, bnd |-> g.bnd, rad |-> rd]
  \/ /\ "swv" \in Fams
     /\ \E sh \in AllShapes : kase \in SwvCases(sh)
  \/ /\ "emc" \in Fams
     /\ \E z \in 0..(MaxD + 2) : \E ch \in EmcChunks : kase = [fam |-> "emc", size |-> z, chunks |-> ch]
  \/ /\ CfgMode = "full"
     /\ \E sh \in AllShapes : kase = [fam |-> "chunkings", shape |-> sh]
  \/ /\ Border > 0
     /\ \E dd \in 1..MaxD : kase = [fam |-> "border", d |-> dd]

Expected(c) ==
  CASE c.fam = "chunkings" -> [err |-> FALSE, shape |-> c.shape, cells |-> <<>>, all |-> SetToSeq(ChunkingsOf(c.shape))]
    [] c.fam = "border"    -> [err |-> FALSE, shape |-> <<>>, cells |-> <<>>, all |-> SetToSeq(BorderSeqs(c.d, Border))]
    [] c.fam = "emc"       -> EnsureMinAlg(c.size, c.chunks)
    [] OTHER               -> Res(c)

Init == /\ Pick
        /\ fin = FALSE
        /\ xpd = NotYet
        /\ out = "null"
Next == /\ ~fin
        /\ fin' = TRUE
        /\ xpd' = Expected(kase)
        /\ out' = ToJson([c |-> kase, e |-> xpd'])
        /\ UNCHANGED kase

-----------------------------------------------------------------------------
(* Design check: the reference satisfies the property it is the reference of. *)
IsFam(f) == fin /\ kase.fam = f
Good(f)  == IsFam(f) /\ ~xpd.err
Src == Source(kase.shape)

CellCount == (fin /\ kase.fam \in {"overlap", "trim", "map", "swv"} /\ ~xpd.err) => Len(xpd.cells) = Size(xpd.shape)

\* "overlapping blocks and trimming them again is the identity" - for every admissible chunking
TrimInverts == Good("overlap") =>
                 /\ xpd.shape = ShapeOf(xpd.chunks)
                 /\ EffOfOver(xpd.chunks, kase.depth, kase.bnd) = kase.eff
                 /\ TrimArr(Arr(xpd.shape, xpd.cells), xpd.chunks, kase.depth, kase.bnd) = Src

\* an overlapped array only holds cells of the source (and the boundary constant)
OverlapCellsKnown == Good("overlap") =>
                       \A j \in DOMAIN xpd.cells : xpd.cells[j] \in 1..(Size(kase.shape) + 1)

\* "map_overlap gives the same result as padding the whole array, applying the function and
\* trimming": applying the stencil block by block to the overlapped blocks and trimming them gives,
\* for every admissible chunking, the reference result
BlocksEqualWhole == (Good("map") /\ CfgMode = "full") =>
                      LET P == PadWhole(Src, kase.depth, kase.bnd, CVal(kase.shape)) IN
                      \A ch \in EffChunkings(kase.shape, kase.depth) :
                         MapOverlapBlocksOn(P, ch, kase.depth, kase.bnd, kase.rad).cells = xpd.cells

\* every result cell of a stencil lists its own source cell at the centre of its window
CentrePos(rad) == Ravel(BoxShape(rad), [d \in DOMAIN rad |-> rad[d][1]]) + 1
MapReadsCentre == Good("map") =>
                    /\ xpd.shape = kase.shape
                    /\ \A j \in DOMAIN xpd.cells : xpd.cells[j][CentrePos(kase.rad)] = j
\* without a boundary condition, cells outside the array are never invented
MapNoneReadsNothingOutside ==
   (Good("map") /\ \A d \in DOMAIN kase.bnd : kase.bnd[d] = "none") =>
       xpd.cells = Stencil(Src, kase.rad).cells

\* sliding windows: window (0, ..., 0) of the result is the top-left corner of the source
SwvFirstWindow == Good("swv") =>
                    LET nd == Len(kase.shape) IN
                    /\ Len(xpd.shape) = nd + Len(kase.w)
                    /\ \A d \in 1..Len(kase.w) : xpd.shape[nd + d] = kase.w[d]
                    /\ xpd.cells # <<>> => xpd.cells[1] = 1

\* ensure_minimum_chunksize: the transcription of dask's loop satisfies the contract
EmcContract == IsFam("emc") => EnsureMinOK(kase.size, kase.chunks, xpd)

ChunkingsValid == IsFam("chunkings") => \A j \in DOMAIN xpd.all : ValidChunks(kase.shape, xpd.all[j])

\* the border stratum contains, for its depth, a short block right after a block only slightly longer than the depth,
\* in first, middle and last position (when the depth leaves room for a non-empty short block)
BorderCovers == IsFam("border") =>
   LET dd == kase.d
       S  == {xpd.all[j] : j \in DOMAIN xpd.all}
   IN /\ \A s \in S : (\E j \in DOMAIN s : s[j] < dd) /\ SumSeq(s) <= Border
      /\ <<dd + 1, dd - 1>> \in S /\ <<dd - 1, dd + 1>> \in S
      /\ (3 * dd <= Border) => (<<dd, dd + 1, dd - 1>> \in S /\ <<dd + 1, dd - 1, dd>> \in S /\ <<dd - 1, dd + 1, dd>> \in S)

-----------------------------------------------------------------------------
(* The example of the docstring of dask.array.overlap.overlap fixes what the
   boundary names mean (checked once, when the model is loaded).              *)
DocEx == OverlapArr(IdArr(<<8, 8>>, -1), <<<<4, 4>>, <<4, 4>>>>, <<<<2, 2>>, <<1, 1>>>>, <<"constant", "reflect">>, 100)
ASSUME /\ DocEx.shape = <<16, 12>>
       /\ OverChunks(<<<<4, 4>>, <<4, 4>>>>, <<<<2, 2>>, <<1, 1>>>>, <<"constant", "reflect">>) = <<<<8, 8>>, <<6, 6>>>>
       /\ SubSeq(DocEx.cells, 1, 12) = [j \in 1..12 |-> 100]
       /\ SubSeq(DocEx.cells, 25, 36) = <<0, 0, 1, 2, 3, 4, 3, 4, 5, 6, 7, 7>>
       /\ SubSeq(DocEx.cells, 8 * 12 + 1, 9 * 12) = <<16, 16, 17, 18, 19, 20, 19, 20, 21, 22, 23, 23>>
ASSUME EnsureMinAlg(10, <<20, 20, 1>>).out = <<20, 11, 10>> /\ EnsureMinAlg(3, <<1, 1, 3>>).out = <<5>>
=============================================================================
