------------------------------- MODULE Masked -------------------------------
(* Reference semantics of numpy.ma on small arrays.  C33.

   A masked array is a shape and row-major cells <<v, m>>: v a small natural
   number, m = 1 for a masked cell.  The value under a mask is a don't-care of
   numpy.ma for everything but the constructors (where getdata returns the
   data that went in), so results are written in a canonical form with v = 0
   under the mask and the harness canonicalises what dask returns the same
   way; `getdata` is specified on constructor results only.  Plain (unmasked)
   results - filled, getdata, getmaskarray, count - have m = 0 everywhere.
   Means are exact rationals (module Rational).  Lanes, axes and the integer
   folds are those of module Reductions.                                      *)
EXTENDS Reductions

Mk(data, mask)  == [j \in DOMAIN data |-> <<IF mask[j] = 1 THEN 0 ELSE data[j], mask[j]>>]
Plain(vals)     == [j \in DOMAIN vals |-> <<vals[j], 0>>]
Masked0         == <<0, 1>>
DataOf(cells)   == [j \in DOMAIN cells |-> cells[j][1]]
MaskOf(cells)   == [j \in DOMAIN cells |-> cells[j][2]]
Or(a, b)        == IF a = 1 \/ b = 1 THEN 1 ELSE 0
B(p)            == IF p THEN 1 ELSE 0

\* numpy floor division and the comparison used by the elementwise cases
UnVal(op, x)     == CASE op = "neg" -> -x [] op = "mul2" -> 2 * x
BinVal(op, x, y) == CASE op = "add" -> x + y [] op = "sub" -> x - y [] op = "mul" -> x * y
                      [] op = "floordiv" -> x \div y [] op = "lt" -> B(x < y)
\* numpy.ma masks the results outside the domain of the operation (division by zero)
OutOfDomain(op, x, y) == op = "floordiv" /\ y = 0

\* a (data, mask) with b (data2, mask2): mask = or of the masks (and of the domain mask)
Elementwise(op, data, mask, data2, mask2) ==
  [j \in DOMAIN data |->
     LET m == Or(Or(mask[j], mask2[j]), B(mask[j] = 0 /\ mask2[j] = 0 /\ OutOfDomain(op, data[j], data2[j])))
     IN IF m = 1 THEN Masked0 ELSE <<BinVal(op, data[j], data2[j]), 0>>]
Unary(op, data, mask) == [j \in DOMAIN data |-> IF mask[j] = 1 THEN Masked0 ELSE <<UnVal(op, data[j]), 0>>]

\* masked_equal / masked_greater / ... / masked_inside / masked_outside / masked_values / masked_where:
\* the new mask is the condition or-ed with the old mask; the data is unchanged
Cond(op, x, v1, v2, c) ==
  CASE op = "masked_equal"         -> x = v1
    [] op = "masked_values"        -> x = v1
    [] op = "masked_not_equal"     -> x # v1
    [] op = "masked_greater"       -> x > v1
    [] op = "masked_greater_equal" -> x >= v1
    [] op = "masked_less"          -> x < v1
    [] op = "masked_less_equal"    -> x <= v1
    [] op = "masked_inside"        -> (IF v1 <= v2 THEN v1 ELSE v2) <= x /\ x <= (IF v1 <= v2 THEN v2 ELSE v1)
    [] op = "masked_outside"       -> x < (IF v1 <= v2 THEN v1 ELSE v2) \/ x > (IF v1 <= v2 THEN v2 ELSE v1)
    [] op = "masked_where"         -> c = 1
MaskOps == {"masked_equal", "masked_values", "masked_not_equal", "masked_greater", "masked_greater_equal",
            "masked_less", "masked_less_equal", "masked_inside", "masked_outside", "masked_where"}
MaskBy(op, data, mask, v1, v2, cond) ==
  [j \in DOMAIN data |-> <<data[j], Or(mask[j], B(Cond(op, data[j], v1, v2, IF op = "masked_where" THEN cond[j] ELSE 0)))>>]

-----------------------------------------------------------------------------
(* Reductions skip masked cells; a lane without an unmasked cell gives a masked
   result (count: 0; argmin / argmax: position 0).                            *)
Kept(l) == DataOf(SelectSeq(l, LAMBDA c : c[2] = 0))
MFoldVal(op, l) ==
  LET k == Kept(l) IN
  CASE op = "count" -> <<Len(k), 0>>
    [] op \in {"argmin", "argmax"} ->
         IF k = <<>> THEN <<0, 0>>
         ELSE LET e == IF op = "argmin" THEN Min(Rng(k)) ELSE Max(Rng(k))
              IN <<Min({j \in DOMAIN l : l[j][2] = 0 /\ l[j][1] = e}) - 1, 0>>
    [] op = "mean" -> IF k = <<>> THEN <<RNaN, 1>> ELSE <<Mean(k), 0>>
    [] OTHER -> IF k = <<>> THEN Masked0 ELSE <<IntVal(op, k), 0>>

MFold(shape, cells, op, ax, kd) ==
  LET nd == Len(shape) IN
  IF ~AxesOK(nd, ax) \/ (op \in {"argmin", "argmax"} /\ Len(ax) # 1) THEN Failure ELSE
  LET R      == RedSet(nd, ax)
      kept   == Asc((1..nd) \ R)
      lanes  == Lanes(shape, cells, R)
      oshape == IF kd THEN [d \in 1..nd |-> IF d \in R THEN 1 ELSE shape[d]] ELSE Sub(shape, kept)
  IN [shape |-> oshape, cells |-> [j \in DOMAIN lanes |-> MFoldVal(op, lanes[j])], err |-> FALSE]

\* numpy.ma.cumsum / cumprod: masked cells count as the identity and stay masked
MScan(shape0, cells, op, ax) ==
  LET ident   == IF op = "cumsum" THEN 0 ELSE 1
      neutral == [j \in DOMAIN cells |-> IF cells[j][2] = 1 THEN ident ELSE cells[j][1]]
      s       == Scan(shape0, neutral, op, ax)
      mask    == MaskOf(cells)
  IN IF s.err THEN Failure
     ELSE [shape |-> s.shape, cells |-> Mk(s.cells, mask), err |-> FALSE]

-----------------------------------------------------------------------------
(* A case: the masked input a = masked_array(data, mask) (maskform says how the
   mask is spelled, fv is the fill_value given to the constructor, 0 = none),
   and one operation on it.  Fields by operation:
     id | getdata | getmaskarray | filled (p: fill value, 0 = the array's own)
     rewrap | refill: b = masked_array(a, fill_value = p) of the already masked a - the mask is kept and the
        fill value replaced: rewrap is b itself, refill is filled(b)
     remask: masked_array(a, mask = mask2) of the already masked a - the masks are or-ed (keep_mask)
     neg | mul2 | add sub mul floordiv lt (data2, mask2; form2 "masked" | "plain")
     sum prod min max any all mean count argmin argmax (ax, kd) | cumsum cumprod (ax)
     masked_* (v1, v2, cond)                                                   *)
FoldOps == {"sum", "prod", "min", "max", "any", "all", "mean", "count", "argmin", "argmax"}
MExpected(c) ==
  LET a   == Mk(c.data, c.mask)
      op  == c.op
      fill == IF c.p # 0 THEN c.p ELSE c.fv                 \* filled(a, p) / filled(a) with the array's fill_value
      res == CASE op = "id"           -> [shape |-> c.shape, cells |-> a, err |-> FALSE]
               [] op = "getdata"      -> [shape |-> c.shape, cells |-> Plain(c.data), err |-> FALSE]
               [] op = "getmaskarray" -> [shape |-> c.shape, cells |-> Plain(c.mask), err |-> FALSE]
               [] op = "filled"       -> [shape |-> c.shape, err |-> FALSE,
                                          cells |-> Plain([j \in DOMAIN c.data |-> IF c.mask[j] = 1 THEN fill ELSE c.data[j]])]
               [] op = "rewrap"       -> [shape |-> c.shape, cells |-> a, err |-> FALSE]
               [] op = "refill"       -> [shape |-> c.shape, err |-> FALSE,
                                          cells |-> Plain([j \in DOMAIN c.data |-> IF c.mask[j] = 1 THEN c.p ELSE c.data[j]])]
               [] op = "remask"       -> [shape |-> c.shape, err |-> FALSE,
                                          cells |-> Mk(c.data, [j \in DOMAIN c.mask |-> Or(c.mask[j], c.mask2[j])])]
               [] op \in {"neg", "mul2"} -> [shape |-> c.shape, cells |-> Unary(op, c.data, c.mask), err |-> FALSE]
               [] op \in {"add", "sub", "mul", "floordiv", "lt"} ->
                    [shape |-> c.shape, cells |-> Elementwise(op, c.data, c.mask, c.data2, c.mask2), err |-> FALSE]
               [] op \in FoldOps      -> MFold(c.shape, a, op, c.ax, c.kd)
               [] op \in {"cumsum", "cumprod"} -> MScan(c.shape, a, op, c.ax)
               [] op \in MaskOps      -> [shape |-> c.shape, err |-> FALSE,
                                          cells |-> LET r == MaskBy(op, c.data, c.mask, c.v1, c.v2, c.cond)
                                                    IN Mk(DataOf(r), MaskOf(r))]
      kind == IF op \in {"any", "all", "lt", "getmaskarray"} THEN "b" ELSE IF op = "mean" THEN "f" ELSE "i"
  IN [shape |-> res.shape, cells |-> res.cells, err |-> res.err, kind |-> kind, rat |-> op = "mean",
      plain |-> op \in {"getdata", "getmaskarray", "filled", "refill", "count", "argmin", "argmax"}]
=============================================================================
