------------------------------ MODULE MaskedMC ------------------------------
(* Case enumeration for C33 (spec -> code) and design check of the reference.

   Inputs: for every seeded data fill [shape, data, data2, cond] TLC takes ALL
   0/1 masks when the shape has at most AllMasksUpTo cells, and the masks listed
   in MaskMenu (seeded; always containing the all-masked and the unmasked one)
   otherwise.  A case is an input, one operation with its parameters, and the set
   of ALL chunkings of the shape: the expected result does not depend on the
   chunking (that is the property), the harness runs dask on every chunking (or
   a seeded sample) - all-masked blocks arise from the (mask, chunking) pairs.
   As in ReductionsMC a case is picked in Init and evaluated in one step.      *)
EXTENDS Masked

CONSTANTS Fills,          \* set of [shape, data, data2, cond]
          AllMasksUpTo,   \* all masks for shapes with at most this many cells
          MaskMenu        \* set of [shape, mask] for the larger shapes

VARIABLES case, done, exp, out

MasksOf(sh) == IF Size(sh) <= AllMasksUpTo THEN [1..Size(sh) -> {0, 1}]
               ELSE { m.mask : m \in { m \in MaskMenu : m.shape = sh } }

Singles(nd)  == { <<a>> : a \in 0..(nd - 1) } \cup { <<-1>> }
FoldAxes(nd) == {<<None>>} \cup Singles(nd) \cup (IF nd = 2 THEN { <<0, 1>> } ELSE {})
Constant(m)  == \A i, j \in DOMAIN m : m[i] = m[j]
Zeros(n)     == [j \in 1..n |-> 0]
Rev(m)       == [j \in DOMAIN m |-> m[Len(m) + 1 - j]]

Base(f, m) == [shape |-> f.shape, data |-> f.data, mask |-> m, chunkings |-> NDChunkings(f.shape),
               maskform |-> "np", fv |-> 0, p |-> 0]

CasesOf(f, m) ==
  LET b  == Base(f, m)
      nd == Len(f.shape)
      n  == Size(f.shape)
  IN   { [b EXCEPT !.maskform = mf] @@ [op |-> "id"]
         : mf \in {"np", "da"} \cup (IF Constant(m) THEN {"scalar"} ELSE {}) \cup (IF m = Zeros(n) THEN {"nomask"} ELSE {}) }
  \cup { b @@ [op |-> o] : o \in {"getdata", "getmaskarray", "neg", "mul2"} }
  \cup { [b EXCEPT !.p = 7] @@ [op |-> "filled"], [b EXCEPT !.fv = 8] @@ [op |-> "filled"],
         [b EXCEPT !.maskform = "da", !.fv = 8] @@ [op |-> "filled"] }
  \* re-wrapping the already masked array: a new fill_value (with and without one on the inner array, every
  \* spelling of the inner mask), or a further mask
  \cup { [b EXCEPT !.maskform = mf, !.fv = fv, !.p = 7] @@ [op |-> o]
         : o \in {"rewrap", "refill"}, fv \in {0, 8}, mf \in {"np", "da"} \cup (IF m = Zeros(n) THEN {"nomask"} ELSE {}) }
  \cup { b @@ [op |-> "remask", mask2 |-> m2] : m2 \in {Rev(m), [j \in 1..n |-> f.cond[j]]} }
  \cup { b @@ [op |-> o, data2 |-> f.data2, mask2 |-> s.m, form2 |-> s.f]
         : o \in {"add", "sub", "mul", "floordiv", "lt"},
           s \in { [m |-> Zeros(n), f |-> "plain"], [m |-> Zeros(n), f |-> "masked"], [m |-> Rev(m), f |-> "masked"] } }
  \cup { b @@ [op |-> o, ax |-> ax, kd |-> kd]
         : o \in {"sum", "prod", "min", "max", "any", "all", "mean", "count"}, ax \in FoldAxes(nd), kd \in BOOLEAN }
  \cup { b @@ [op |-> o, ax |-> ax, kd |-> kd] : o \in {"argmin", "argmax"}, ax \in Singles(nd), kd \in BOOLEAN }
  \cup { b @@ [op |-> o, ax |-> ax] : o \in {"cumsum", "cumprod"}, ax \in {<<None>>} \cup Singles(nd) }
  \cup { b @@ [op |-> o[1], v1 |-> o[2], v2 |-> o[3], cond |-> f.cond]
         : o \in { <<"masked_equal", 1, 0>>, <<"masked_equal", 3, 0>>, <<"masked_values", 2, 0>>, <<"masked_not_equal", 2, 0>>,
                   <<"masked_greater", 1, 0>>, <<"masked_greater_equal", 2, 0>>, <<"masked_less", 2, 0>>,
                   <<"masked_less_equal", 1, 0>>, <<"masked_inside", 1, 2>>, <<"masked_inside", 3, 2>>,
                   <<"masked_outside", 1, 2>>, <<"masked_where", 0, 0>> } }

Cases == UNION { UNION { CasesOf(f, m) : m \in MasksOf(f.shape) } : f \in Fills }

NotYet == [shape |-> <<>>, cells |-> <<>>, err |-> TRUE, kind |-> "", rat |-> FALSE, plain |-> FALSE]
Init == /\ case \in Cases
        /\ done = FALSE
        /\ exp = NotYet
        /\ out = "null"
Next == /\ ~done
        /\ done' = TRUE
        /\ exp' = MExpected(case)
        /\ out' = ToJson([c |-> case, e |-> exp'])
        /\ UNCHANGED case

-----------------------------------------------------------------------------
(* Design check: independent characterisations of the reference.              *)
A       == Mk(case.data, case.mask)
NMasked == Cardinality({j \in DOMAIN case.mask : case.mask[j] = 1})
Unmasked == DataOf(SelectSeq(A, LAMBDA c : c[2] = 0))

CellCount == (done /\ ~exp.err) => Len(exp.cells) = ProdSeq(exp.shape)
\* canonical form: nothing is said about the data under a mask; plain results have no mask
Canonical == (done /\ ~exp.err) => \A j \in DOMAIN exp.cells :
                 /\ exp.cells[j][2] \in {0, 1}
                 /\ exp.cells[j][2] = 1 => exp.cells[j][1] = (IF exp.rat THEN RNaN ELSE 0)
                 /\ exp.plain => exp.cells[j][2] = 0
\* masks only grow: every result of an elementwise or masking operation is masked wherever the input was
MaskMonotone == (done /\ case.op \in MaskOps \cup {"neg", "mul2", "add", "sub", "mul", "floordiv", "lt", "cumsum", "cumprod", "id",
                                              "rewrap", "remask"}) =>
                   \A j \in DOMAIN case.mask : case.mask[j] = 1 => exp.cells[j][2] = 1
\* count + number of masked cells = size, along any axes
CountComplement == (done /\ case.op = "count" /\ ~exp.err) => SumSeq(DataOf(exp.cells)) = Size(case.shape) - NMasked
\* the whole-array sum is the sum of the unmasked data, whatever the axes; masked iff some lane is all-masked
SumOfUnmasked == (done /\ case.op = "sum" /\ ~exp.err) =>
                    SumSeq(DataOf(exp.cells)) = SumSeq(Unmasked)
AllMaskedLane == (done /\ case.op \in {"sum", "prod", "min", "max", "mean", "any", "all"} /\ case.ax = <<None>> /\ ~exp.err) =>
                    (exp.cells[1][2] = 1) = (NMasked = Size(case.shape))
\* filled then compared with the data: differs only under the mask
\* re-wrapping keeps the mask; filling the re-wrapped array uses the NEW fill value, whatever the old one was
RewrapKeepsMask == (done /\ case.op = "rewrap") => MaskOf(exp.cells) = case.mask
RefillUsesNew == (done /\ case.op = "refill") =>
                    \A j \in DOMAIN case.data : exp.cells[j][1] = (IF case.mask[j] = 1 THEN case.p ELSE case.data[j])
FilledAgrees == (done /\ case.op = "filled") =>
                   \A j \in DOMAIN case.data : exp.cells[j][1] = (IF case.mask[j] = 1 THEN (IF case.p # 0 THEN case.p ELSE case.fv) ELSE case.data[j])
\* with no masked cell every operation agrees with the unmasked reference semantics of module Reductions
UnmaskedAgrees == (done /\ NMasked = 0 /\ ~exp.err /\ case.op \in {"sum", "prod", "min", "max", "any", "all", "mean", "argmin", "argmax"}) =>
                     LET r == Fold(case.shape, case.data, case.op, 0, case.ax, case.kd)
                     IN DataOf(exp.cells) = r.cells /\ exp.shape = r.shape
=============================================================================
