------------------------------- MODULE Random -------------------------------
(* C28 - random arrays (dask/array/random.py: _wrap_func naming and seeding,
   _spawn_bitgens / random_state_data, Generator.choice / RandomState.choice).

   Three registries, each written as a fold over recorded observations.

   (1) Seeded draws.  A configuration
          cfg = [api, seed, dist, shape, chunks, nth]
       (Generator or RandomState made from `seed`; the nth array that generator
       creates, after nth-1 fixed preceding creations; distribution, shape and
       chunks) must have ONE value: every observation - another scheduler, a
       recomputation of the same array, the array created again from a fresh
       generator with the same seed - gives the same fingerprint.
          drawn : cfg -> fingerprint      DrawStep keeps it a function.
   (2) Unseeded arrays created separately: their names are pairwise distinct,
       no task key belongs to two of them, and when they are computed together
       each keeps the value it has when computed alone.
   (3) choice(replace=False): the result has the requested length, every
       element comes from the population, no element of the population (the
       harness uses populations of pairwise distinct values) is returned twice.

   Not decided: statistical quality and the independence of the per-chunk
   streams; that two unseeded arrays have different VALUES (only names/keys).  *)
EXTENDS Naturals, Integers, Sequences, FiniteSets, TLC

Unset == 0                    \* fingerprints, names and keys are positive integers

\* ---- (1) seeded draws: obs = <<[how, fp]>> in the order observed
RECURSIVE DrawWalk(_, _, _)
DrawWalk(obs, j, drawn) ==
  IF j > Len(obs) THEN {}
  ELSE IF obs[j].fp = Unset THEN { "Raised_" \o obs[j].how }
  ELSE IF drawn = Unset THEN DrawWalk(obs, j + 1, obs[j].fp)
  ELSE IF obs[j].fp # drawn THEN { "Deterministic_" \o obs[j].how }
  ELSE DrawWalk(obs, j + 1, drawn)
DrawBad(obs) == DrawWalk(obs, 1, Unset)
\* the global definition
DrawDeterministic(obs) == \A i, j \in DOMAIN obs : obs[i].fp = obs[j].fp /\ obs[i].fp # Unset

\* ---- (2) unseeded arrays: names, keys (a sequence of key sets as sequences), alone, together
ToSet(s) == { s[i] : i \in DOMAIN s }
NamesDistinct(names) == \A i, j \in DOMAIN names : i # j => names[i] # names[j]
KeysDisjoint(keys)   == \A i, j \in DOMAIN keys : i # j => ToSet(keys[i]) \cap ToSet(keys[j]) = {}
KeepsOwn(alone, together) == Len(alone) = Len(together) /\ \A i \in DOMAIN alone : together[i] = alone[i]
UnseededBad(r) == (IF NamesDistinct(r.names) THEN {} ELSE { "NamesDistinct" })
                  \cup (IF KeysDisjoint(r.keys) THEN {} ELSE { "KeysDisjoint" })
                  \cup (IF KeepsOwn(r.alone, r.together) THEN {} ELSE { "KeepsOwnDraw" })

\* ---- (3) choice without replacement
ChoiceOK(pop, size, res) == /\ Len(res) = size
                            /\ ToSet(res) \subseteq ToSet(pop)
                            /\ \A i, j \in DOMAIN res : i # j => res[i] # res[j]
ChoiceBad(pop, size, res) == (IF Len(res) = size THEN {} ELSE { "ChoiceLength" })
                             \cup (IF ToSet(res) \subseteq ToSet(pop) THEN {} ELSE { "ChoiceInPopulation" })
                             \cup (IF \A i, j \in DOMAIN res : i # j => res[i] # res[j] THEN {} ELSE { "ChoiceDistinct" })
=============================================================================
