------------------------------- MODULE Random -------------------------------
(* C28 - random arrays (dask/array/random.py: _wrap_func naming and seeding,
   _spawn_bitgens / random_state_data, Generator.choice / RandomState.choice).

   Three registries, each written as a fold over recorded observations.

   (1) Seeded draws.  A configuration
          cfg = [api, seed, dist, shape, chunks, nth]
       (Generator or RandomState made from `seed`; the nth array that generator
       creates, after nth-1 fixed preceding creations; distribution - including
       choice with and without replacement and permutation -, shape and chunks)
       must have ONE value.  The recorded history of a configuration says which
       collection OBJECT each computation was made on: recomputing one object
       (same scheduler again, another scheduler) must repeat its value (clause
       Recompute), and the array created again from a fresh generator with the
       same seed must have that value too (clause Deterministic).
   (2) Unseeded arrays created separately - by separate generators, by the module
       level functions, or by successive identical calls on ONE unseeded generator
       object, for every distribution incl. single-chunk choice -: their names are pairwise distinct,
       no task key belongs to two of them, and when they are computed together
       each keeps the value it has when computed alone.
   (3) choice(replace=False): the result has the requested length, every
       element comes from the population, no element of the population (the
       harness uses populations of pairwise distinct values) is returned twice.

   Not decided: statistical quality and the independence of the per-chunk
   streams; that two unseeded arrays have different VALUES (only names/keys).  *)
EXTENDS Naturals, Integers, Sequences, FiniteSets, TLC

Unset == 0                    \* fingerprints, names and keys are positive integers

\* ---- (1) seeded draws: obs = <<[how, obj, fp]>> in the order observed.
\* obj names the COLLECTION OBJECT that was computed: the observations with one obj are the history of
\* computations of one collection (again on sync, on threads twice, on the process pool twice);
\* another obj is the same configuration created again from a fresh generator with the same seed.
\*    Recompute     : one collection object has one value, however often and wherever it is computed
\*    Deterministic : all collection objects of one configuration have that same value
RECURSIVE DrawWalk(_, _, _)
DrawWalk(obs, j, first) ==          \* first : obj -> fingerprint of the first computation of that object
  IF j > Len(obs) THEN {}
  ELSE LET o == obs[j] IN
       IF o.fp = Unset THEN { "Raised_" \o o.how }
       ELSE IF o.obj \in DOMAIN first
            THEN (IF first[o.obj] # o.fp THEN { "Recompute_" \o o.how } ELSE DrawWalk(obs, j + 1, first))
       ELSE IF \E q \in DOMAIN first : first[q] # o.fp THEN { "Deterministic_" \o o.how }
       ELSE DrawWalk(obs, j + 1, (o.obj :> o.fp) @@ first)
DrawBad(obs) == DrawWalk(obs, 1, <<>>)
\* the global definitions
RecomputeOK(obs)       == \A i, j \in DOMAIN obs : obs[i].obj = obs[j].obj => obs[i].fp = obs[j].fp
DrawDeterministic(obs) == \A i, j \in DOMAIN obs : obs[i].fp = obs[j].fp /\ obs[i].fp # Unset

\* ---- (2) unseeded arrays: names, keys (per array the keys of its OUTPUT tasks - the random draws; input tasks such as
\* a parameter array or the population of choice are rightly shared by arrays made from the same arguments), alone, together
ToSet(s) == { s[i] : i \in DOMAIN s }
NamesDistinct(names) == \A i, j \in DOMAIN names : i # j => names[i] # names[j]
KeysDisjoint(keys)   == \A i, j \in DOMAIN keys : i # j => ToSet(keys[i]) \cap ToSet(keys[j]) = {}
KeepsOwn(alone, together) == Len(alone) = Len(together) /\ \A i \in DOMAIN alone : together[i] = alone[i]
UnseededBad(r) == (IF NamesDistinct(r.names) THEN {} ELSE { "NamesDistinct" })
                  \cup (IF KeysDisjoint(r.keys) THEN {} ELSE { "KeysDisjoint" })
                  \cup (IF KeepsOwn(r.alone, r.together) THEN {} ELSE { "KeepsOwnDraw" })

\* ---- (3) choice without replacement
ChoiceOK(pop, size, res) == /\ Len(res) = size
                            /\ ToSet(res) \subseteq ToSet(pop)
                            /\ \A i, j \in DOMAIN res : i # j => res[i] # res[j]
ChoiceBad(pop, size, res) == (IF Len(res) = size THEN {} ELSE { "ChoiceLength" })
                             \cup (IF ToSet(res) \subseteq ToSet(pop) THEN {} ELSE { "ChoiceInPopulation" })
                             \cup (IF \A i, j \in DOMAIN res : i # j => res[i] # res[j] THEN {} ELSE { "ChoiceDistinct" })
=============================================================================
