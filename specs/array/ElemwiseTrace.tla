---------------------------- MODULE ElemwiseTrace ----------------------------
(* code -> spec for C19: each record is one elementwise call made on real dask
   arrays (a step of a larger lazy expression, or a TLC-enumerated case), with
   the operands' cells and what was observed of the result: declared shape /
   chunks / dtype, every block computed through its own key, the assembled
   content.  TLC decides each record against the reference semantics of module
   Elemwise and the lazy-metadata clauses of module ArrayMeta.

   r = [id, fam, op, xs, obs]; obs is an ArrayMeta observation extended with
       kind  : kind of the declared dtype      ckind : kind of the computed dtype
       cells : assembled content as integers (row-major)                       *)
EXTENDS Elemwise, ArrayMeta, TraceIO

ContentOK(w, cells) ==
  /\ Len(cells) = Len(w.cells)
  /\ \A j \in DOMAIN cells : w.cells[j] = DC \/ cells[j] = w.cells[j]

Bad(r) ==
  LET w == Expected(r) IN
  IF w.err THEN Clause("ErrorExpected", r.obs.raised # "")
  ELSE IF r.obs.raised # "" THEN {"UnexpectedRaise"}
  ELSE TrimClauses(Clause("Shape", r.obs.whole.s = w.shape)
                    \cup Clause("Kind", r.obs.kind = w.kind /\ r.obs.ckind = w.kind)
                    \cup Clause("Content", ContentOK(w, r.obs.cells))
                    \cup MetaClauses(r.obs),
                    <<"Shape", "Kind", "Content">> \o MetaOrder)

Init == TInit
Next == TNext(Bad)
=============================================================================
