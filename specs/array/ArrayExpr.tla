------------------------------ MODULE ArrayExpr ------------------------------
(* Pipelines of the operations the array EXPRESSION engine implements
   (dask/array/_array_expr: creation, elementwise, basic slicing, reductions,
   rechunk, concatenate/stack, transpose, map_blocks) with their reference
   semantics.  C30: with array.query-planning enabled a pipeline must compute
   what this module says (= NumPy = the classic engine), whatever the
   expression optimizer rewrites (slice pushdown, rechunk fusion, ...).

   An array value is [shape, cells] with cells the row-major sequence of small
   integers.  A pipeline is a sequence of operation records applied left to
   right to the source array  arange(Size(shape)).reshape(shape):
     [op |-> "slice", comps]    basic index (slices / ints / None) - module Indexing
     [op |-> "addk", k]  [op |-> "mulk", k]  [op |-> "neg"]      elementwise with a constant
     [op |-> "addself"]         x + x  (two references to one sub-expression)
     [op |-> "addrev"]          x + x[::-1] along axis 1 (a slice inside an elementwise)
     [op |-> "sum" | "max" | "min", axis]   axis = 0 for "all axes", else 1-based axis
     [op |-> "T"]               transpose (reverse the axes)
     [op |-> "rechunk", how]    content unchanged; how in {"one", "ones", "split1"}
     [op |-> "concat", axis]    concatenate([x, x], axis)
     [op |-> "stack"]           stack([x, x])  (new leading axis)
     [op |-> "mapb"]            map_blocks(lambda b: 2*b + 1)  (elementwise per block)
     [op |-> "perm", axes]      transpose(x, axes)  (axes: a permutation of 1..ndim, 1-based)
     [op |-> "concatr", axis, how]  concatenate([x, x.rechunk(how)], axis): the inputs have DIFFERENT
                                block structures along the axis; the content is that of "concat" *)
EXTENDS Indexing

Arr(shape, cells) == [shape |-> shape, cells |-> cells]
Source(shape) == Arr(shape, [j \in 1..Size(shape) |-> j - 1])

\* 0-based index tuples of a shape in row-major order
Tuples(shape) == IF Size(shape) = 0 THEN <<>> ELSE [j \in DOMAIN Cart(shape) |-> [a \in DOMAIN shape |-> Cart(shape)[j][a] - 1]]
At(x, t) == x.cells[Ravel(x.shape, t) + 1]

MapCells(x, F(_)) == Arr(x.shape, [j \in DOMAIN x.cells |-> F(x.cells[j])])

RevSeq(s) == [i \in DOMAIN s |-> s[Len(s) - i + 1]]

Transpose(x) ==
  LET osh == RevSeq(x.shape)
      ts  == Tuples(osh)
  IN Arr(osh, [j \in DOMAIN ts |-> At(x, RevSeq(ts[j]))])

\* transpose(x, p): axis i of the result is axis p[i] of x
Permute(x, p) ==
  LET osh == [i \in DOMAIN p |-> x.shape[p[i]]]
      ts  == Tuples(osh)
      inv(t) == [a \in DOMAIN p |-> t[CHOOSE i \in DOMAIN p : p[i] = a]]
  IN Arr(osh, [j \in DOMAIN ts |-> At(x, inv(ts[j]))])
IsPerm(p, n) == Len(p) = n /\ {p[i] : i \in DOMAIN p} = 1..n

Slice(x, comps) ==
  LET r == Result(x.shape, comps)
  IN IF r.err THEN [shape |-> <<>>, cells |-> <<>>, err |-> TRUE]
     ELSE [shape |-> r.shape, cells |-> [j \in DOMAIN r.cells |-> x.cells[r.cells[j] + 1]], err |-> FALSE]

DropAxis(s, a) == [i \in 1..(Len(s) - 1) |-> IF i < a THEN s[i] ELSE s[i + 1]]
PutAxis(s, a, v) == [i \in 1..(Len(s) + 1) |-> IF i < a THEN s[i] ELSE IF i = a THEN v ELSE s[i - 1]]

FoldCells(F(_, _), s, acc) == FoldLeft(F, acc, s)

Plus(a, b) == a + b
MaxOf2(a, b) == IF a > b THEN a ELSE b
MinOf2(a, b) == IF a < b THEN a ELSE b

\* fold `kind` over 1-based axis a (a = 0: over everything)
Reduce(x, kind, a) ==
  LET lane(vals) == CASE kind = "sum" -> FoldCells(Plus, vals, 0)
                      [] kind = "max" -> FoldCells(MaxOf2, Tail(vals), Head(vals))
                      [] OTHER        -> FoldCells(MinOf2, Tail(vals), Head(vals))
  IN IF a = 0 THEN Arr(<<>>, <<lane(x.cells)>>)
     ELSE LET osh == DropAxis(x.shape, a)
              ts  == Tuples(osh)
              n   == x.shape[a]
          IN Arr(osh, [j \in DOMAIN ts |-> lane([i \in 1..n |-> At(x, PutAxis(ts[j], a, i - 1))])])

Concat2(x, a) ==
  LET osh == [x.shape EXCEPT ![a] = 2 * @]
      ts  == Tuples(osh)
      n   == x.shape[a]
  IN Arr(osh, [j \in DOMAIN ts |-> At(x, [ts[j] EXCEPT ![a] = @ % n])])

Stack2(x) ==
  LET osh == <<2>> \o x.shape
      ts  == Tuples(osh)
  IN Arr(osh, [j \in DOMAIN ts |-> At(x, Tail(ts[j]))])

RevAxis(x, a) ==
  LET ts == Tuples(x.shape)
  IN Arr(x.shape, [j \in DOMAIN ts |-> At(x, [ts[j] EXCEPT ![a] = x.shape[a] - 1 - @])])
ZipAdd(x, y) == Arr(x.shape, [j \in DOMAIN x.cells |-> x.cells[j] + y.cells[j]])

\* is the operation defined on this array (NumPy would not raise)?
Applicable(x, o) ==
  CASE o.op = "slice"  -> ~Result(x.shape, o.comps).err
    [] o.op \in {"sum"} -> o.axis <= Len(x.shape)
    [] o.op \in {"max", "min"} -> o.axis <= Len(x.shape) /\ Size(x.shape) > 0
                                  /\ (o.axis = 0 \/ x.shape[o.axis] > 0)
    [] o.op \in {"concat", "concatr"} -> o.axis \in 1..Len(x.shape)
    [] o.op = "perm"   -> IsPerm(o.axes, Len(x.shape))
    [] o.op = "addrev" -> Len(x.shape) >= 1
    [] OTHER -> TRUE

Apply(x, o) ==
  CASE o.op = "slice"   -> LET r == Slice(x, o.comps) IN Arr(r.shape, r.cells)
    [] o.op = "addk"    -> MapCells(x, LAMBDA v : v + o.k)
    [] o.op = "mulk"    -> MapCells(x, LAMBDA v : v * o.k)
    [] o.op = "neg"     -> MapCells(x, LAMBDA v : 0 - v)
    [] o.op = "mapb"    -> MapCells(x, LAMBDA v : 2 * v + 1)
    [] o.op = "addself" -> ZipAdd(x, x)
    [] o.op = "addrev"  -> ZipAdd(x, RevAxis(x, Len(x.shape)))
    [] o.op \in {"sum", "max", "min"} -> Reduce(x, o.op, o.axis)
    [] o.op = "T"       -> Transpose(x)
    [] o.op = "rechunk" -> x
    [] o.op \in {"concat", "concatr"} -> Concat2(x, o.axis)
    [] o.op = "perm"    -> Permute(x, o.axes)
    [] o.op = "stack"   -> Stack2(x)

RECURSIVE Run(_, _)
Run(x, pipe) == IF pipe = <<>> THEN [ok |-> TRUE, val |-> x]
                ELSE IF ~Applicable(x, Head(pipe)) THEN [ok |-> FALSE, val |-> x]
                ELSE Run(Apply(x, Head(pipe)), Tail(pipe))

\* chunks requested by a rechunk step on an array of the given shape
RechunkTarget(shape, how) ==
  [a \in DOMAIN shape |->
     CASE how = "one"  -> <<shape[a]>>
       [] how = "ones" -> IF shape[a] = 0 THEN <<0>> ELSE [i \in 1..shape[a] |-> 1]
       [] OTHER        -> IF shape[a] <= 1 THEN <<shape[a]>> ELSE <<1, shape[a] - 1>>]
=============================================================================
