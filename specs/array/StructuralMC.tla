---------------------------- MODULE StructuralMC ----------------------------
(* Case enumeration and design check for C24.  A state is one (operation,
   input shape(s), arguments) case with the result the reference demands, or -
   op = "chunkings" - the complete list of chunkings of one shape (the result of
   an operation does not depend on the input chunking, so the chunkings are
   enumerated once per shape and the harness runs each case under them).      *)
EXTENDS Structural

CONSTANTS Ops,        \* set of operation names to enumerate
          Shapes,     \* input shapes
          WideShapes, \* extra input shapes (longer axes) for the chunk-relative shuffle / take family only
          MaxChunkNd  \* shapes with more axes than this get a menu of chunkings instead of all

VARIABLES case, exp, out

Nd(sh) == Len(sh)
Axes(nd)    == (-nd)..(nd - 1)
AxesBad(nd) == Axes(nd) \cup {nd}

-----------------------------------------------------------------------------
Divs(n) == IF n = 0 THEN {0, 1, 2} ELSE {d \in 1..n : n % d = 0}
Targets(n) ==
  {<<n>>}
  \cup {t \in Divs(n) \X Divs(n) : t[1] * t[2] = n}
  \cup {t \in Divs(n) \X Divs(n) \X Divs(n) : t[1] * t[2] * t[3] = n}
WithNeg(t) == {t, [t EXCEPT ![1] = -1], [t EXCEPT ![Len(t)] = -1]}
ReshapeCases(sh) ==
  [op: {"reshape"}, shape: {sh}, tgt: UNION {WithNeg(t) : t \in Targets(Size(sh))}
                                       \cup {<<Size(sh) + 1>>, <<-1, -1>>, <<2, -1, 3>>}]

Perms(nd) == {p \in [1..nd -> 0..(nd - 1)] : IsPerm(p)}
TransposeCases(sh) ==
  [op: {"transpose"}, shape: {sh}, perm: Perms(Nd(sh)) \cup {[d \in 1..Nd(sh) |-> -d], [d \in 1..Nd(sh) |-> 0]}]
  \cup [op: {"T"}, shape: {sh}]
MoveaxisCases(sh) == [op: {"moveaxis"}, shape: {sh}, src: AxesBad(Nd(sh)), dst: Axes(Nd(sh))]
SwapaxesCases(sh) == [op: {"swapaxes"}, shape: {sh}, a1: Axes(Nd(sh)), a2: AxesBad(Nd(sh))]
SqueezeCases(sh)  == [op: {"squeeze"}, shape: {sh}, ax: Axes(Nd(sh)) \cup {None}]
ExpandCases(sh)   == [op: {"expand_dims"}, shape: {sh}, ax: AxesBad(Nd(sh) + 1)]
                     \cup [op: {"expand_dims_t"}, shape: {sh},
                           axs: {<<>>} \cup {<<x>> : x \in Axes(Nd(sh) + 1)}
                                \cup (Axes(Nd(sh) + 2) \X AxesBad(Nd(sh) + 2))
                                \cup {<<0, 1, 2>>, <<-1, 0, 2>>, <<0, -1, -2>>}]
                     \cup [op: {"squeeze_t"}, shape: {sh}, axs: {<<>>} \cup (Axes(Nd(sh)) \X Axes(Nd(sh)))]
                     \cup [op: {"atleast"}, shape: {sh}, k: 1..3]
FlipCases(sh)     == [op: {"flip"}, shape: {sh}, ax: AxesBad(Nd(sh)) \cup {None}]
Rot90Cases(sh)    == IF Nd(sh) < 2 THEN {}
                     ELSE {c \in [op: {"rot90"}, shape: {sh}, k: -1..4, a1: Axes(Nd(sh)), a2: Axes(Nd(sh))] :
                             c.a1 # c.a2 /\ (c.a1 < 0) = (c.a2 < 0)}
Shifts(n)         == {-(n + 1), -1, 0, 1, 2, n, n + 1}
RollCases(sh)     == UNION {[op: {"roll"}, shape: {sh}, shift: Shifts(sh[d]), ax: {d - 1}] : d \in DOMAIN sh}
                     \cup [op: {"roll"}, shape: {sh}, shift: Shifts(Size(sh)), ax: {None}]
                     \cup [op: {"roll"}, shape: {sh}, shift: {1}, ax: {-1}]

IdxMenu(n) == IF n = 0 THEN {<<>>}
              ELSE {<<0>>, <<n - 1, 0>>, <<0, 0>>, <<-1, 0, n - 1>>, <<>>, Iota(n), [j \in 1..n |-> n - j], <<n>>}
\* (NumPy does not bounds-check indices when the array is empty: no out-of-range index there)
TakeCases(sh)   == UNION {[op: {"take"}, shape: {sh}, idx: IdxMenu(sh[d]) \ (IF Size(sh) = 0 THEN {<<sh[d]>>} ELSE {}),
                           ax: {d - 1, d - 1 - Nd(sh)}] : d \in DOMAIN sh}
GroupMenu(n) == {<<[j \in 1..n |-> n - j]>>,                          \* one group, reversed
                 [j \in 1..n |-> <<j - 1>>],                          \* every position its own group
                 <<<<n - 1, 0>>, <<0>>>>}                             \* repeats
                \cup (IF n >= 3 THEN {<<<<2, 0>>, <<1>>, [j \in 1..(n - 2) |-> n - j]>>} ELSE {})
ShuffleCases(sh) == UNION {[op: {"shuffle"}, shape: {sh}, groups: GroupMenu(sh[d]), ax: {d - 1}]
                           : d \in {d \in DOMAIN sh : sh[d] > 0}}
(* Chunk-relative indexers.  shuffle (and take, which splits its index into groups and calls the same
   code) has a shortcut for "the array is already grouped the way we want": the indexer is the identity
   grouping of the input's own chunks.  The interesting inputs are therefore the indexers that are *nearly*
   that: for every chunking c of the axis, the identity grouping of c and the groupings obtained from it by
   exchanging two interior positions of a group, repeating an interior position, or exchanging interior
   positions of two groups - same group lengths, same first and last position, different content.  Such a
   case carries achunks = c: the harness runs it on an input whose axis is chunked exactly like c (the
   reference result does not depend on it).                                                              *)
IdGroups(c) == [b \in DOMAIN c |-> [t \in 1..c[b] |-> Offset(c, b) + t - 1]]
SwapIn(g)   == [g EXCEPT ![2] = g[3], ![3] = g[2]]               \* Len(g) >= 4
DupIn(g)    == IF Len(g) >= 4 THEN [g EXCEPT ![3] = g[2]] ELSE [g EXCEPT ![2] = g[1]]      \* Len(g) >= 3
NearId(c) ==
  LET G == IdGroups(c) IN
  {G}
  \cup {[G EXCEPT ![b] = SwapIn(G[b])] : b \in {b \in DOMAIN c : c[b] >= 4}}
  \cup {[G EXCEPT ![b] = DupIn(G[b])] : b \in {b \in DOMAIN c : c[b] >= 3}}
  \cup {[G EXCEPT ![p[1]] = [G[p[1]] EXCEPT ![2] = G[p[2]][2]], ![p[2]] = [G[p[2]] EXCEPT ![2] = G[p[1]][2]]]
        : p \in {p \in (DOMAIN c) \X (DOMAIN c) : p[1] < p[2] /\ c[p[1]] >= 3 /\ c[p[2]] >= 3}}
  \* the identity grouping of a different chunking with as many blocks (lengths differ: no shortcut)
  \cup (IF Len(c) >= 2 /\ c[1] >= 2 THEN {IdGroups([c EXCEPT ![1] = c[1] - 1, ![2] = c[2] + 1])} ELSE {})
RelCases(op, sh) ==
  UNION {UNION {IF op = "shuffle"
                THEN {[op |-> "shuffle", shape |-> sh, ax |-> d - 1, groups |-> G, achunks |-> c] : G \in NearId(c)}
                ELSE {[op |-> "take", shape |-> sh, ax |-> d - 1, idx |-> FlattenSeq(G), achunks |-> c] : G \in NearId(c)}
                : c \in Comps(sh[d])}
         : d \in {d \in DOMAIN sh : sh[d] >= 1}}

RepeatCases(sh) == UNION {[op: {"repeat"}, shape: {sh}, r: 0..3, ax: {d - 1, d - 1 - Nd(sh)}] : d \in DOMAIN sh}
\* reps of every length 0 .. ndim + 2 (NumPy prepends axes when reps is longer than the rank - also when every
\* rep is 1 and "nothing is repeated"); results bounded to 150 cells
RECURSIVE SeqsOfLen(_, _)
SeqsOfLen(S, k) == IF k = 0 THEN {<<>>} ELSE {<<x>> \o r : x \in S, r \in SeqsOfLen(S, k - 1)}
TileReps(sh) == UNION {SeqsOfLen(IF k <= Nd(sh) THEN 0..3 ELSE 0..2, k) : k \in 0..(Nd(sh) + 2)}
TileCases(sh)   == {c \in [op: {"tile"}, shape: {sh}, reps: TileReps(sh)] :
                      Size(sh) * ProdSeq([j \in DOMAIN c.reps |-> IF c.reps[j] = 0 THEN 1 ELSE c.reps[j]]) <= 150}
\* targets of broadcast_to: every size-1 axis may grow, axes may be prepended
RECURSIVE Grow(_)
Grow(sh) == IF sh = <<>> THEN {<<>>}
            ELSE {<<e>> \o r : e \in (IF Head(sh) = 1 THEN {1, 3} ELSE {Head(sh)}), r \in Grow(Tail(sh))}
BroadcastCases(sh) ==
  [op: {"broadcast_to"}, shape: {sh},
   tgt: {p \o g : p \in {<<>>, <<1>>, <<2>>, <<1, 1>>, <<1, 2>>, <<2, 1>>}, g \in Grow(sh)}
        \cup {[sh EXCEPT ![1] = sh[1] + 1], Tail(sh)}]
TriCases(sh)  == IF Nd(sh) < 2 THEN {} ELSE [op: {"tril", "triu"}, shape: {sh}, k: {-5, -2, -1, 0, 1, 2, 5}]
DiffCases(sh) == UNION {[op: {"diff"}, shape: {sh}, n: 0..3, ax: {d - 1, d - 1 - Nd(sh)}] : d \in DOMAIN sh}

Modes == {"constant", "edge", "reflect", "symmetric", "wrap", "maximum", "minimum", "mean"}
PadWidths(sh) ==
  {[d \in DOMAIN sh |-> <<w, w>>] : w \in {0, 1, 2, 3, 5}}
  \cup {[d \in DOMAIN sh |-> <<d, 0>>], [d \in DOMAIN sh |-> <<0, 2>>],
        [d \in DOMAIN sh |-> IF d = 1 THEN <<2 * sh[d] + 1, sh[d] + 1>> ELSE <<0, 0>>],
        [d \in DOMAIN sh |-> IF d = Len(sh) THEN <<1, 3 * sh[d]>> ELSE <<1, 0>>]}
PadCases(sh) ==
  [op: {"pad"}, shape: {sh}, pw: PadWidths(sh), mode: Modes \ {"constant"}, cval: {0}]
  \cup [op: {"pad"}, shape: {sh}, pw: PadWidths(sh), mode: {"constant"}, cval: {0, 7}]

\* inputs of concatenate: the other arrays differ along the joined axis only (plus one mismatch)
ConcatCases(sh) ==
  UNION {[op: {"concatenate"}, shape: {sh}, ax: {d - 1, d - 1 - Nd(sh)},
          shapes: {<<sh, [sh EXCEPT ![d] = e]>> : e \in {0, 1, 2, sh[d]}}
                  \cup {<<sh, [sh EXCEPT ![d] = 1], [sh EXCEPT ![d] = 2]>>, <<sh>>}
                  \cup (IF Nd(sh) >= 2 THEN {<<sh, [e \in DOMAIN sh |-> sh[e] + 1]>>} ELSE {})]
         : d \in DOMAIN sh}
StackCases(sh) == [op: {"stack"}, shape: {sh}, ax: AxesBad(Nd(sh) + 1), shapes: {<<sh>>, <<sh, sh>>, <<sh, sh, sh>>}]
                  \cup [op: {"stack"}, shape: {sh}, ax: {0}, shapes: {<<sh, sh \o <<1>> >>}]
BlockCases(sh) ==
  LET nd == Nd(sh) IN
  [op: {"block1"}, shape: {sh}, shapes: {<<sh, [sh EXCEPT ![nd] = 1]>>, <<sh, sh, [sh EXCEPT ![nd] = 2]>>, <<sh>>,
                                         <<sh, <<Last(sh)>> >>, <<sh, [sh EXCEPT ![1] = sh[1] + 1] \o <<2>> >>}]
  \cup (IF nd = 2
        THEN [op: {"block2"}, shape: {sh},
              rows: {<< <<sh, <<sh[1], 1>> >>, << <<2, sh[2]>>, <<2, 1>> >> >>,
                     << <<sh>>, << <<1, sh[2]>> >> >>,
                     << <<sh, sh>>, << <<1, sh[2]>>, <<1, sh[2] + 1>> >> >>}]
        ELSE IF nd = 1
        THEN [op: {"block2"}, shape: {sh}, rows: {<< <<sh, <<2>> >>, << <<sh[1] + 2>> >> >>, << <<sh>>, <<sh>> >>}]
        ELSE {})
  \* nesting depth alone changes the rank: [[a]] and [[[a]]] are 2-d / 3-d
  \cup [op: {"block2"}, shape: {sh}, rows: {<< <<sh>> >>}]
  \cup [op: {"block3"}, shape: {sh}, planes: {<< << <<sh>> >> >>, << << <<sh>> >>, << <<sh>> >> >>,
                                               << << <<sh, sh>> >> >>, << << <<sh>>, <<sh>> >> >>}]

OpCases(op, sh) ==
  IF Nd(sh) = 0 THEN {} ELSE
  CASE op = "reshape"      -> ReshapeCases(sh)
    [] op = "transpose"    -> TransposeCases(sh)
    [] op = "moveaxis"     -> MoveaxisCases(sh)
    [] op = "swapaxes"     -> SwapaxesCases(sh)
    [] op = "squeeze"      -> SqueezeCases(sh)
    [] op = "expand_dims"  -> ExpandCases(sh)
    [] op = "flip"         -> FlipCases(sh)
    [] op = "rot90"        -> Rot90Cases(sh)
    [] op = "roll"         -> RollCases(sh)
    [] op = "take"         -> TakeCases(sh) \cup RelCases("take", sh)
    [] op = "shuffle"      -> ShuffleCases(sh) \cup RelCases("shuffle", sh)
    [] op = "repeat"       -> RepeatCases(sh)
    [] op = "tile"         -> TileCases(sh)
    [] op = "broadcast_to" -> BroadcastCases(sh)
    [] op = "tri"          -> TriCases(sh)
    [] op = "diff"         -> DiffCases(sh)
    [] op = "pad"          -> PadCases(sh)
    [] op = "concatenate"  -> ConcatCases(sh)
    [] op = "stack"        -> StackCases(sh)
    [] op = "block"        -> BlockCases(sh)

\* the shapes of every input array a case mentions
InputShapes(c) == IF c.op \in {"concatenate", "stack", "block1"} THEN {c.shapes[k] : k \in DOMAIN c.shapes}
                  ELSE IF c.op = "block2" THEN {FlattenSeq(c.rows)[k] : k \in DOMAIN FlattenSeq(c.rows)}
                  ELSE IF c.op = "block3" THEN {FlattenSeq(FlattenSeq(c.planes))[k] : k \in DOMAIN FlattenSeq(FlattenSeq(c.planes))}
                  ELSE {c.shape}
AllOpCases == UNION {OpCases(op, sh) : op \in Ops, sh \in Shapes}
              \cup UNION {RelCases(op, sh) : op \in Ops \cap {"shuffle", "take"}, sh \in WideShapes}
AllInputShapes == UNION {InputShapes(c) : c \in AllOpCases}

\* chunkings: all of them for few axes, a menu (single block, unit blocks, two irregular) for more
MenuAxis(n) == IF n = 0 THEN {<<0>>} ELSE {<<n>>, [j \in 1..n |-> 1]} \cup (IF n >= 2 THEN {<<1, n - 1>>, <<n - 1, 1>>} ELSE {})
RECURSIVE MenuChunkings(_)
MenuChunkings(sh) == IF sh = <<>> THEN {<<>>}
                     ELSE {<<c>> \o r : c \in MenuAxis(Head(sh)), r \in MenuChunkings(Tail(sh))}
\* ... plus chunkings with one zero-width block (front, back, inside) on one axis, the other axes in one
\* block or in unit blocks: dask produces such chunkings itself (boolean indexing, slicing, from_array)
ZAxis(n) == IF n = 0 THEN {} ELSE {<<0, n>>, <<n, 0>>} \cup (IF n >= 2 THEN {<<1, 0, n - 1>>} ELSE {})
PlainAxis(n) == IF n = 0 THEN {<<0>>} ELSE {<<n>>, [j \in 1..n |-> 1]}
RECURSIVE ZeroAt(_, _)
ZeroAt(sh, d) == IF sh = <<>> THEN {<<>>}
                 ELSE {<<c>> \o r : c \in (IF d = 1 THEN ZAxis(Head(sh)) ELSE PlainAxis(Head(sh))), r \in ZeroAt(Tail(sh), d - 1)}
ZeroChunkings(sh) == UNION {ZeroAt(sh, d) : d \in DOMAIN sh}
ChunkingsOf(sh) == (IF Len(sh) <= MaxChunkNd THEN NDChunkings(sh) ELSE MenuChunkings(sh)) \cup ZeroChunkings(sh)
ChunkingCases == [op: {"chunkings"}, shape: AllInputShapes]

Expected(c) == IF c.op = "chunkings" THEN [err |-> FALSE, shape |-> c.shape, cells |-> <<>>, all |-> SetToSeq(ChunkingsOf(c.shape))]
               ELSE Res(c)

Init == /\ case \in AllOpCases \cup ChunkingCases
        /\ exp = Expected(case)
        /\ out = ToJson([c |-> case, e |-> exp])
Next == UNCHANGED <<case, exp, out>>

-----------------------------------------------------------------------------
(* sanity of the reference itself (design check) *)
IsOp == case.op # "chunkings"
CellCount == (IsOp /\ ~exp.err) => Len(exp.cells) = Size(exp.shape)

\* index-map operations only move input ids around (0 / the constant fill aside)
InputIds(c) == UNION {{100 * (k - 1) + j : j \in 1..100} : k \in 1..8}
IndexMapOps == {"reshape", "transpose", "T", "moveaxis", "swapaxes", "squeeze", "expand_dims", "flip", "rot90", "roll",
                "take", "shuffle", "repeat", "tile", "broadcast_to", "tril", "triu", "concatenate", "stack", "block1", "block2",
                "block3", "expand_dims_t", "squeeze_t", "atleast"}
OnlyInputCells == (IsOp /\ ~exp.err /\ (case.op \in IndexMapOps \/ (case.op = "pad" /\ ~IsStat(case.mode)))) =>
                    \A j \in DOMAIN exp.cells : exp.cells[j] \in {0, 7} \cup 1..800

\* rearrangements are bijections on the cells
BijectiveOps == {"reshape", "transpose", "T", "moveaxis", "swapaxes", "squeeze", "expand_dims", "flip", "rot90", "roll",
                 "expand_dims_t", "squeeze_t", "atleast"}
Bijective == (IsOp /\ ~exp.err /\ case.op \in BijectiveOps) =>
               /\ Len(exp.cells) = Size(case.shape)
               /\ {exp.cells[j] : j \in DOMAIN exp.cells} = 1..Size(case.shape)

\* joins keep every input cell exactly once
JoinOps == {"concatenate", "stack", "block1", "block2", "block3"}
JoinKeepsAll == (IsOp /\ ~exp.err /\ case.op \in JoinOps) =>
                  LET shapes == IF case.op = "block2" THEN FlattenSeq(case.rows)
                                ELSE IF case.op = "block3" THEN FlattenSeq(FlattenSeq(case.planes)) ELSE case.shapes
                      ids == UNION {{100 * (k - 1) + j : j \in 1..Size(shapes[k])} : k \in DOMAIN shapes}
                  IN /\ Len(exp.cells) = Cardinality(ids)
                     /\ {exp.cells[j] : j \in DOMAIN exp.cells} = ids

\* padding keeps the original block in place
PadKeepsCore == (IsOp /\ ~exp.err /\ case.op = "pad") =>
                  LET a == IdArr(case.shape, 0)
                      r == Arr(exp.shape, exp.cells)
                      ix == Idx0(case.shape)
                  IN \A j \in DOMAIN ix : At(r, [d \in DOMAIN case.shape |-> ix[j][d] + case.pw[d][1]]) = At(a, ix[j])

\* a chunk-relative indexer has the block lengths, first and last positions of its chunking, and the
\* family contains, for every chunking with a block of >= 3, an indexer that is NOT the identity
RelStructure == (IsOp /\ case.op = "shuffle" /\ "achunks" \in DOMAIN case) =>
   \/ Len(case.groups) # Len(case.achunks)
   \/ \E b \in DOMAIN case.groups : Len(case.groups[b]) # case.achunks[b]
   \/ \A b \in DOMAIN case.groups :
         /\ case.groups[b][1] = Offset(case.achunks, b)
         /\ case.groups[b][Len(case.groups[b])] = Offset(case.achunks, b) + case.achunks[b] - 1
RelNotIdentity == \A c \in Comps(4) : (\E b \in DOMAIN c : c[b] >= 3) => \E G \in NearId(c) : G # IdGroups(c) /\ FlattenSeq(G) # Iota(4)

\* rank-changing arguments: the rank of the result is what the arguments say, whatever their values
RankOK == (IsOp /\ ~exp.err) =>
   /\ (case.op = "tile" => Len(exp.shape) = (IF Len(case.reps) > Len(case.shape) THEN Len(case.reps) ELSE Len(case.shape)))
   /\ (case.op = "broadcast_to" => Len(exp.shape) = Len(case.tgt))
   /\ (case.op = "expand_dims_t" => Len(exp.shape) = Len(case.shape) + Len(case.axs))
   /\ (case.op = "atleast" => Len(exp.shape) = (IF case.k > Len(case.shape) THEN case.k ELSE Len(case.shape)))
   /\ (case.op = "block3" => Len(exp.shape) >= 3)
   /\ (case.op = "block2" => Len(exp.shape) >= 2)

\* every chunking handed to the harness is a valid chunking of its shape
ChunkingsValid == case.op = "chunkings" => \A j \in DOMAIN exp.all : ValidChunks(case.shape, exp.all[j])
=============================================================================
