----------------------------- MODULE Structural -----------------------------
(* C24 - reference semantics of NumPy's structural array operations, as index
   maps on arrays whose cells hold element ids (input k of an operation holds
   ids 100*(k-1)+1, 100*(k-1)+2, ... in row-major order; 0 is the fill value of
   tril/triu and constant padding).  A case is a record with field `op` and the
   operation's arguments; Res(c) = [err, shape, cells] is what NumPy returns
   (err = TRUE: NumPy raises).  Nothing is said about output chunks.          *)
EXTENDS IndexMaps, TLC, Json

None == 99

Ok(a) == [err |-> FALSE, shape |-> a.shape, cells |-> a.cells]
Fail  == [err |-> TRUE, shape |-> <<>>, cells |-> <<>>]

-----------------------------------------------------------------------------
(* reshape: row-major order of cells is preserved *)
NegOnes(tgt)   == Cardinality({d \in DOMAIN tgt : tgt[d] = -1})
KnownProd(tgt) == ProdSeq([d \in DOMAIN tgt |-> IF tgt[d] = -1 THEN 1 ELSE tgt[d]])
Resolve(n, tgt) == [d \in DOMAIN tgt |-> IF tgt[d] = -1 THEN n \div KnownProd(tgt) ELSE tgt[d]]
Reshape(a, tgt) ==
  LET n == Size(a.shape) IN
  IF NegOnes(tgt) > 1 \/ (NegOnes(tgt) = 1 /\ (KnownProd(tgt) = 0 \/ n % KnownProd(tgt) # 0)) THEN Fail
  ELSE IF Size(Resolve(n, tgt)) # n THEN Fail
  ELSE Ok(Arr(Resolve(n, tgt), a.cells))

(* transpose: perm is a permutation of 0..nd-1 (already normalised) *)
TransposeA(a, perm) ==
  Build([d \in DOMAIN perm |-> a.shape[perm[d] + 1]],
        LAMBDA t : At(a, [s \in DOMAIN a.shape |-> t[PosOf(perm, s - 1)]]))
NormPerm(nd, perm) == [d \in DOMAIN perm |-> NormAxis(nd, perm[d])]
Transpose(a, perm) ==
  IF Len(perm) # NDim(a) \/ \E d \in DOMAIN perm : ~AxisOK(NDim(a), perm[d]) THEN Fail
  ELSE IF ~IsPerm(NormPerm(NDim(a), perm)) THEN Fail
  ELSE Ok(TransposeA(a, NormPerm(NDim(a), perm)))
RevPerm(nd) == [d \in 1..nd |-> nd - d]

MovePerm(nd, s, d) == InsertAt(RemoveAt(Iota(nd), s + 1), d + 1, s)
Moveaxis(a, s, d) ==
  LET nd == NDim(a) IN
  IF ~AxisOK(nd, s) \/ ~AxisOK(nd, d) THEN Fail
  ELSE Ok(TransposeA(a, MovePerm(nd, NormAxis(nd, s), NormAxis(nd, d))))
SwapPerm(nd, x, y) == [i \in 1..nd |-> IF i - 1 = x THEN y ELSE IF i - 1 = y THEN x ELSE i - 1]
Swapaxes(a, x, y) ==
  LET nd == NDim(a) IN
  IF ~AxisOK(nd, x) \/ ~AxisOK(nd, y) THEN Fail
  ELSE Ok(TransposeA(a, SwapPerm(nd, NormAxis(nd, x), NormAxis(nd, y))))

(* squeeze / expand_dims: only the shape changes *)
Squeeze(a, ax) ==
  LET nd == NDim(a) IN
  IF ax = None THEN Ok(Arr(SelectSeq(a.shape, LAMBDA e : e # 1), a.cells))
  ELSE IF ~AxisOK(nd, ax) \/ a.shape[NormAxis(nd, ax) + 1] # 1 THEN Fail
  ELSE Ok(Arr(RemoveAt(a.shape, NormAxis(nd, ax) + 1), a.cells))
ExpandDims(a, ax) ==
  LET nd == NDim(a) + 1 IN
  IF ~AxisOK(nd, ax) THEN Fail
  ELSE Ok(Arr(InsertAt(a.shape, NormAxis(nd, ax) + 1, 1), a.cells))

\* expand_dims with a tuple of axes: positions refer to the result (rank nd + Len(axs)); repeated axes are an error
ExpandDimsT(a, axs) ==
  LET nd == NDim(a) + Len(axs)
      ok == \A j \in DOMAIN axs : AxisOK(nd, axs[j])
  IN IF ~ok THEN Fail
     ELSE LET pos == {NormAxis(nd, axs[j]) + 1 : j \in DOMAIN axs}            \* 1-based positions of the new axes
              old == SelectSeq([d \in 1..nd |-> d], LAMBDA d : d \notin pos)   \* positions that keep the old axes, in order
          IN IF Cardinality(pos) # Len(axs) THEN Fail
             ELSE Ok(Arr([d \in 1..nd |-> IF d \in pos THEN 1 ELSE a.shape[PosOf(old, d)]], a.cells))
\* squeeze with a tuple of axes
SqueezeT(a, axs) ==
  LET nd == NDim(a) IN
  IF \E j \in DOMAIN axs : ~AxisOK(nd, axs[j]) THEN Fail
  ELSE LET pos == {NormAxis(nd, axs[j]) + 1 : j \in DOMAIN axs} IN
       IF Cardinality(pos) # Len(axs) \/ \E d \in pos : a.shape[d] # 1 THEN Fail
       ELSE Ok(Arr(SelectSeq([d \in 1..nd |-> IF d \in pos THEN -1 ELSE a.shape[d]], LAMBDA e : e # -1), a.cells))
\* atleast_1d / atleast_2d / atleast_3d (inputs have at least one axis)
AtLeastNd(a, k) ==
  LET nd == NDim(a) IN
  IF nd >= k THEN Ok(a)
  ELSE IF k = 2 THEN Ok(Arr(<<1>> \o a.shape, a.cells))                             \* (n) -> (1, n)
  ELSE IF nd = 1 THEN Ok(Arr(<<1>> \o a.shape \o <<1>>, a.cells))                   \* (n) -> (1, n, 1)
  ELSE Ok(Arr(a.shape \o <<1>>, a.cells))                                           \* (m, n) -> (m, n, 1)

(* flip / rot90 / roll *)
FlipA(a, axes) ==      \* axes: set of 0-based axes
  Build(a.shape, LAMBDA t : At(a, [d \in DOMAIN t |-> IF d - 1 \in axes THEN a.shape[d] - 1 - t[d] ELSE t[d]]))
Flip(a, ax) ==
  IF ax = None THEN Ok(FlipA(a, 0..(NDim(a) - 1)))
  ELSE IF ~AxisOK(NDim(a), ax) THEN Fail
  ELSE Ok(FlipA(a, {NormAxis(NDim(a), ax)}))
Rot90(a, k, x, y) ==
  LET nd == NDim(a) IN
  IF nd < 2 \/ ~AxisOK(nd, x) \/ ~AxisOK(nd, y) THEN Fail
  ELSE LET p == NormAxis(nd, x)
           q == NormAxis(nd, y)
           sw == SwapPerm(nd, p, q)
           kk == Mod(k, 4)
       IN IF p = q THEN Fail
          ELSE CASE kk = 0 -> Ok(a)
                 [] kk = 1 -> Ok(TransposeA(FlipA(a, {q}), sw))
                 [] kk = 2 -> Ok(FlipA(a, {p, q}))
                 [] kk = 3 -> Ok(FlipA(TransposeA(a, sw), {q}))
RollA(a, shift, d) ==   \* d: 1-based axis
  Build(a.shape, LAMBDA t : At(a, SetAt(t, d, Mod(t[d] - shift, a.shape[d]))))
Roll(a, shift, ax) ==
  IF ax = None
  THEN LET flat == Arr(<<Size(a.shape)>>, a.cells) IN Ok(Arr(a.shape, RollA(flat, shift, 1).cells))
  ELSE IF ~AxisOK(NDim(a), ax) THEN Fail
  ELSE Ok(RollA(a, shift, NormAxis(NDim(a), ax) + 1))

(* take / shuffle / repeat / tile / broadcast_to *)
Take(a, idx, ax) ==
  LET nd == NDim(a) IN
  IF ~AxisOK(nd, ax) THEN Fail
  ELSE LET d == NormAxis(nd, ax) + 1
           n == a.shape[d]
       IN IF \E j \in DOMAIN idx : ~AxisOK(n, idx[j]) THEN Fail
          ELSE Ok(Build(SetAt(a.shape, d, Len(idx)),
                        LAMBDA t : At(a, SetAt(t, d, NormAxis(n, idx[t[d] + 1])))))
Shuffle(a, groups, ax) == Take(a, FlattenSeq(groups), ax)
Repeat(a, r, ax) ==
  LET nd == NDim(a) IN
  IF ~AxisOK(nd, ax) THEN Fail
  ELSE LET d == NormAxis(nd, ax) + 1 IN
       Ok(Build(SetAt(a.shape, d, a.shape[d] * r), LAMBDA t : At(a, SetAt(t, d, t[d] \div r))))
Tile(a, reps) ==
  LET nd  == NDim(a)
      k   == IF Len(reps) > nd THEN Len(reps) ELSE nd
      sh  == Ones(k - nd) \o a.shape
      rp  == Ones(k - Len(reps)) \o reps
      a2  == Arr(sh, a.cells)
  IN Ok(Build([d \in 1..k |-> sh[d] * rp[d]], LAMBDA t : At(a2, [d \in 1..k |-> t[d] % sh[d]])))
BroadcastTo(a, tgt) ==
  LET nd == NDim(a)
      k  == Len(tgt) - nd
  IN IF k < 0 \/ \E d \in 1..nd : a.shape[d] # tgt[k + d] /\ a.shape[d] # 1 THEN Fail
     ELSE Ok(Build(tgt, LAMBDA t : At(a, [d \in 1..nd |-> IF a.shape[d] = 1 THEN 0 ELSE t[k + d]])))

(* tril / triu: on the last two axes; removed cells become 0 *)
Tri(a, k, lower) ==
  LET nd == NDim(a) IN
  IF nd < 2 THEN Fail
  ELSE Ok(Build(a.shape, LAMBDA t : IF (lower /\ t[nd] - t[nd - 1] <= k) \/ (~lower /\ t[nd] - t[nd - 1] >= k)
                                    THEN At(a, t) ELSE 0))

(* diff: n-th discrete difference along an axis (on values, not ids) *)
Diff1(a, d) ==
  Build(SetAt(a.shape, d, IF a.shape[d] = 0 THEN 0 ELSE a.shape[d] - 1),
        LAMBDA t : At(a, SetAt(t, d, t[d] + 1)) - At(a, t))
RECURSIVE DiffN(_, _, _)
DiffN(a, n, d) == IF n = 0 THEN a ELSE DiffN(Diff1(a, d), n - 1, d)
Diff(a, n, ax) ==
  IF NDim(a) = 0 \/ ~AxisOK(NDim(a), ax) THEN Fail ELSE Ok(DiffN(a, n, NormAxis(NDim(a), ax) + 1))

-----------------------------------------------------------------------------
(* pad: NumPy pads axis by axis, each axis on the array already padded along
   the earlier axes.  pw[d] = <<before, after>>.                              *)
PadSrc(mode, p, n) ==       \* source position for out-of-range position p (index-map modes)
  CASE mode = "edge"      -> IF p < 0 THEN 0 ELSE n - 1
    [] mode = "wrap"      -> Mod(p, n)
    [] mode = "symmetric" -> LET q == Mod(p, 2 * n) IN IF q < n THEN q ELSE 2 * n - 1 - q
    [] mode = "reflect"   -> IF n = 1 THEN 0
                             ELSE LET q == Mod(p, 2 * n - 2) IN IF q < n THEN q ELSE 2 * n - 2 - q
Line(a, t, d) == [q \in 1..a.shape[d] |-> At(a, SetAt(t, d, q - 1))]     \* the cells along axis d through t
Stat(mode, vals) ==
  CASE mode = "maximum" -> MaxOfSeq(vals)
    [] mode = "minimum" -> MinOfSeq(vals)
    [] mode = "mean"    -> RoundHalfEven(SumSeq(vals), Len(vals))
IsStat(mode) == mode \in {"maximum", "minimum", "mean"}
PadAxis(a, d, before, after, mode, cval) ==
  LET n == a.shape[d] IN
  Build(SetAt(a.shape, d, n + before + after),
        LAMBDA t : LET p == t[d] - before IN
                   IF 0 <= p /\ p < n THEN At(a, SetAt(t, d, p))
                   ELSE IF mode = "constant" THEN cval
                   ELSE IF IsStat(mode) THEN Stat(mode, Line(a, SetAt(t, d, 0), d))
                   ELSE At(a, SetAt(t, d, PadSrc(mode, p, n))))
RECURSIVE PadFrom(_, _, _, _, _)
PadFrom(a, d, pw, mode, cval) ==
  IF d > NDim(a) THEN a
  ELSE PadFrom(PadAxis(a, d, pw[d][1], pw[d][2], mode, cval), d + 1, pw, mode, cval)
Pad(a, pw, mode, cval) ==
  \* NumPy cannot extend an empty axis except with constants
  IF mode # "constant" /\ \E d \in DOMAIN a.shape : a.shape[d] = 0 /\ pw[d][1] + pw[d][2] > 0 THEN Fail
  ELSE Ok(PadFrom(a, 1, pw, mode, cval))

-----------------------------------------------------------------------------
(* several inputs: input k holds ids 100*(k-1)+1 ... *)
Input(shapes, k) == IdArr(shapes[k], 100 * (k - 1))

ConcatA(arrs, d) ==      \* d 1-based axis; shapes agree off-axis
  LET lens == [k \in DOMAIN arrs |-> arrs[k].shape[d]] IN
  Build(SetAt(arrs[1].shape, d, SumSeq(lens)),
        LAMBDA t : LET loc == Locate(lens, t[d]) IN At(arrs[loc[1]], SetAt(t, d, loc[2])))
ConcatOK(arrs, d) ==
  \A k \in DOMAIN arrs : /\ NDim(arrs[k]) = NDim(arrs[1])
                         /\ \A e \in DOMAIN arrs[1].shape : e # d => arrs[k].shape[e] = arrs[1].shape[e]
Concatenate(arrs, ax) ==
  LET nd == NDim(arrs[1]) IN
  IF nd = 0 \/ ~AxisOK(nd, ax) \/ ~ConcatOK(arrs, NormAxis(nd, ax) + 1) THEN Fail
  ELSE Ok(ConcatA(arrs, NormAxis(nd, ax) + 1))
Stack(arrs, ax) ==
  LET nd == NDim(arrs[1]) + 1 IN
  IF ~AxisOK(nd, ax) \/ \E k \in DOMAIN arrs : arrs[k].shape # arrs[1].shape THEN Fail
  ELSE LET d == NormAxis(nd, ax) + 1 IN
       Ok(Build(InsertAt(arrs[1].shape, d, Len(arrs)), LAMBDA t : At(arrs[t[d] + 1], RemoveAt(t, d))))
\* numpy.block of a list (depth 1) or a list of lists (depth 2): arrays are promoted to at least
\* `depth` dimensions, the innermost lists are joined along the last axis, the outer along the one before
AtLeast(a, k) == IF NDim(a) >= k THEN a ELSE Arr(Ones(k - NDim(a)) \o a.shape, a.cells)
MaxNd(arrs) == MaxOfSeq([k \in DOMAIN arrs |-> NDim(arrs[k])])
Block1(arrs, depth) ==     \* -> array or Fail-record; joined along the last axis
  LET k  == IF MaxNd(arrs) > depth THEN MaxNd(arrs) ELSE depth
      as == [j \in DOMAIN arrs |-> AtLeast(arrs[j], k)]
  IN IF ConcatOK(as, k) THEN Ok(ConcatA(as, k)) ELSE Fail
Block2(rows) ==
  LET all == FlattenSeq(rows)
      k   == IF MaxNd(all) > 2 THEN MaxNd(all) ELSE 2
      rs  == [r \in DOMAIN rows |-> LET as == [j \in DOMAIN rows[r] |-> AtLeast(rows[r][j], k)]
                                    IN IF ConcatOK(as, k) THEN Ok(ConcatA(as, k)) ELSE Fail]
  IN IF \E r \in DOMAIN rs : rs[r].err THEN Fail
     ELSE LET as == [r \in DOMAIN rs |-> Arr(rs[r].shape, rs[r].cells)]
          IN IF ConcatOK(as, k - 1) THEN Ok(ConcatA(as, k - 1)) ELSE Fail

\* depth 3: a list of lists of lists; arrays promoted to >= 3-d, joined along -1, then -2, then -3
Block3(planes) ==
  LET all == FlattenSeq(FlattenSeq(planes))
      k   == IF MaxNd(all) > 3 THEN MaxNd(all) ELSE 3
      ps  == [p \in DOMAIN planes |->
                LET rs == [r \in DOMAIN planes[p] |->
                             LET as == [j \in DOMAIN planes[p][r] |-> AtLeast(planes[p][r][j], k)]
                             IN IF ConcatOK(as, k) THEN Ok(ConcatA(as, k)) ELSE Fail]
                IN IF \E r \in DOMAIN rs : rs[r].err THEN Fail
                   ELSE LET as == [r \in DOMAIN rs |-> Arr(rs[r].shape, rs[r].cells)]
                        IN IF ConcatOK(as, k - 1) THEN Ok(ConcatA(as, k - 1)) ELSE Fail]
  IN IF \E p \in DOMAIN ps : ps[p].err THEN Fail
     ELSE LET as == [p \in DOMAIN ps |-> Arr(ps[p].shape, ps[p].cells)]
          IN IF ConcatOK(as, k - 2) THEN Ok(ConcatA(as, k - 2)) ELSE Fail

-----------------------------------------------------------------------------
Squares(shape) == Arr(shape, [j \in 1..Size(shape) |-> j * j])

\* the inputs of a multi-input case, numbered across rows for block
RowInputs(rows) ==
  LET flat == FlattenSeq(rows)
      off(r) == SumSeq([q \in 1..(r - 1) |-> Len(rows[q])])
  IN [r \in DOMAIN rows |-> [j \in DOMAIN rows[r] |-> Input(flat, off(r) + j)]]
PlaneInputs(planes) ==
  LET flat == FlattenSeq(FlattenSeq(planes))
      rowsBefore(p) == FlattenSeq([q \in 1..(p - 1) |-> planes[q]])
      off(p, r) == Len(FlattenSeq(rowsBefore(p))) + SumSeq([q \in 1..(r - 1) |-> Len(planes[p][q])])
  IN [p \in DOMAIN planes |-> [r \in DOMAIN planes[p] |-> [j \in DOMAIN planes[p][r] |-> Input(flat, off(p, r) + j)]]]

Res(c) ==
  LET a == IdArr(c.shape, 0) IN
  CASE c.op = "reshape"      -> Reshape(a, c.tgt)
    [] c.op = "transpose"    -> Transpose(a, c.perm)
    [] c.op = "T"            -> Transpose(a, RevPerm(NDim(a)))
    [] c.op = "moveaxis"     -> Moveaxis(a, c.src, c.dst)
    [] c.op = "swapaxes"     -> Swapaxes(a, c.a1, c.a2)
    [] c.op = "squeeze"      -> Squeeze(a, c.ax)
    [] c.op = "expand_dims"  -> ExpandDims(a, c.ax)
    [] c.op = "expand_dims_t" -> ExpandDimsT(a, c.axs)
    [] c.op = "squeeze_t"    -> SqueezeT(a, c.axs)
    [] c.op = "atleast"      -> AtLeastNd(a, c.k)
    [] c.op = "flip"         -> Flip(a, c.ax)
    [] c.op = "rot90"        -> Rot90(a, c.k, c.a1, c.a2)
    [] c.op = "roll"         -> Roll(a, c.shift, c.ax)
    [] c.op = "take"         -> Take(a, c.idx, c.ax)
    [] c.op = "shuffle"      -> Shuffle(a, c.groups, c.ax)
    [] c.op = "repeat"       -> Repeat(a, c.r, c.ax)
    [] c.op = "tile"         -> Tile(a, c.reps)
    [] c.op = "broadcast_to" -> BroadcastTo(a, c.tgt)
    [] c.op = "tril"         -> Tri(a, c.k, TRUE)
    [] c.op = "triu"         -> Tri(a, c.k, FALSE)
    [] c.op = "diff"         -> Diff(Squares(c.shape), c.n, c.ax)
    [] c.op = "pad"          -> Pad(a, c.pw, c.mode, c.cval)
    [] c.op = "concatenate"  -> Concatenate([k \in DOMAIN c.shapes |-> Input(c.shapes, k)], c.ax)
    [] c.op = "stack"        -> Stack([k \in DOMAIN c.shapes |-> Input(c.shapes, k)], c.ax)
    [] c.op = "block1"       -> Block1([k \in DOMAIN c.shapes |-> Input(c.shapes, k)], 1)
    [] c.op = "block2"       -> Block2(RowInputs(c.rows))
    [] c.op = "block3"       -> Block3(PlaneInputs(c.planes))

-----------------------------------------------------------------------------
(* Lazy-metadata clause on observations (unknown sizes are logged as -1) *)
Known(ch) == \A j \in DOMAIN ch : ch[j] >= 0
MetaOK(obs) ==
  /\ Len(obs.chunks) = Len(obs.cshape)
  /\ \A x \in DOMAIN obs.chunks :
        Known(obs.chunks[x]) => /\ SumSeq(obs.chunks[x]) = obs.cshape[x]
                                /\ obs.lshape[x] = obs.cshape[x]
  /\ obs.blocksok
=============================================================================
