--------------------------- MODULE StructuralTrace ---------------------------
(* code -> spec for C24: each record is one structural operation applied to real
   dask arrays (r.c = the case in the vocabulary of module Structural, inputs
   are id arrays with the recorded chunkings), with what was observed: lazy
   shape/chunks, per-block shapes, assembled content.  TLC decides every record
   against the reference semantics.                                           *)
EXTENDS Structural, TraceIO

Bad(r) ==
  LET w == Res(r.c) IN
  IF w.err THEN {}      \* NumPy has no result: the property is silent, whatever dask does is accepted
  ELSE IF r.obs.raised # "" THEN {"UnexpectedRaise"}
  ELSE Clause("Shape", r.obs.cshape = w.shape)
       \cup Clause("Content", r.obs.cells = w.cells)
       \cup Clause("Meta", MetaOK(r.obs))

Init == TInit
Next == TNext(Bad)
=============================================================================
