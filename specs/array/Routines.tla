------------------------------ MODULE Routines ------------------------------
(* C27 - reference semantics of NumPy's counting, set, search and histogram
   routines on small arrays.  Arrays are records [shape, cells] (module
   IndexMaps) whose cells are small integers; the value NaN (below) stands for a
   floating-point NaN: it is unequal to everything including itself, sorts after
   every number, and is non-zero.  A case is a record with field `op`; Res(c) =
   [err, outs] where outs is the sequence of result arrays [shape, cells, kind]
   NumPy returns (err = TRUE: NumPy raises, no result is promised).  kind is the
   dtype class: "i" integer, "f" floating, "b" boolean.  Densities are exact
   rationals <<num, den>> (module Rational), <<0, 0>> standing for 0/0 = nan.

   The results do not depend on how the inputs are chunked - that is the
   property - so chunkings are not part of a case.                            *)
EXTENDS IndexMaps, Rational, TLC, Json

NaN  == 9
None == 99

O(shape, cells, kind) == [shape |-> shape, cells |-> cells, kind |-> kind]
Outs(s) == [err |-> FALSE, outs |-> s]
Fail    == [err |-> TRUE, outs |-> <<>>]

Rng(s) == {s[j] : j \in DOMAIN s}
HasNaN(s) == NaN \in Rng(s)
\* order with NaN last; equality in NumPy's sense
Lt(x, y) == IF x = NaN THEN FALSE ELSE IF y = NaN THEN TRUE ELSE x < y
Le(x, y) == IF y = NaN THEN TRUE ELSE IF x = NaN THEN FALSE ELSE x <= y     \* sorting order (NaN = NaN here)
Eq(x, y) == x # NaN /\ y # NaN /\ x = y
SortAsc(S) == SetToSortSeq(S, Lt)
NumKind(s) == IF HasNaN(s) THEN "f" ELSE "i"

CountIf(s, P(_)) == Cardinality({j \in DOMAIN s : P(s[j])})
SumIf(s, w, P(_)) == SumSeq([j \in DOMAIN s |-> IF P(s[j]) THEN w[j] ELSE 0])

-----------------------------------------------------------------------------
(* unique: the sorted distinct values (all NaNs count as one value, last), the
   position of the first occurrence, the position of every cell's value among
   the distinct values (in the shape of the input), the multiplicities.        *)
Unique(a, ri, rv, rc) ==
  LET cs == a.cells
      u  == SortAsc(Rng(cs))
      k  == Len(u)
      Same(x, v) == x = v                       \* np.unique(equal_nan=True): NaN matches NaN
      first(v) == (CHOOSE j \in DOMAIN cs : cs[j] = v /\ \A q \in 1..(j - 1) : cs[q] # v) - 1
      pos(v)   == (CHOOSE p \in DOMAIN u : u[p] = v) - 1
  IN Outs(<<O(<<k>>, u, NumKind(cs))>>
          \o (IF ri THEN <<O(<<k>>, [p \in 1..k |-> first(u[p])], "i")>> ELSE <<>>)
          \o (IF rv THEN <<O(a.shape, [j \in DOMAIN cs |-> pos(cs[j])], "i")>> ELSE <<>>)
          \o (IF rc THEN <<O(<<k>>, [p \in 1..k |-> CountIf(cs, LAMBDA x : Same(x, u[p]))], "i")>> ELSE <<>>))

(* bincount(x, weights, minlength): x one-dimensional, non-negative.  With
   weights NumPy returns float64 - except for an empty x, where it returns the
   integer zeros(minlength).                                                   *)
Bincount(x, hasw, w, minlength) ==
  IF Len(x.shape) # 1 \/ \E j \in DOMAIN x.cells : x.cells[j] < 0 THEN Fail
  ELSE LET cs == x.cells
           m  == IF cs = <<>> THEN 0 ELSE MaxOfSeq(cs) + 1
           n  == IF m >= minlength THEN m ELSE minlength
       IN Outs(<<O(<<n>>, [b \in 1..n |-> IF hasw THEN SumIf(cs, w, LAMBDA v : v = b - 1)
                                          ELSE CountIf(cs, LAMBDA v : v = b - 1)],
                   IF hasw /\ cs # <<>> THEN "f" ELSE "i")>>)

-----------------------------------------------------------------------------
(* histogram over explicit, strictly increasing integer edges: bin b is
   [e_b, e_b+1), the last bin also contains its right edge; NaN falls in no
   bin.  density: count / (width * total of the counts).                       *)
InBin(v, edges, b) ==
  /\ v # NaN
  /\ edges[b] <= v
  /\ IF b = Len(edges) - 1 THEN v <= edges[b + 1] ELSE v < edges[b + 1]
HistCounts(cs, edges, hasw, w) ==
  [b \in 1..(Len(edges) - 1) |-> IF hasw THEN SumIf(cs, w, LAMBDA v : InBin(v, edges, b))
                                 ELSE CountIf(cs, LAMBDA v : InBin(v, edges, b))]
RNaN == <<0, 0>>
Density(counts, edges) ==
  LET tot == SumSeq(counts) IN
  [b \in DOMAIN counts |-> IF tot = 0 THEN RNaN ELSE RNorm(counts[b], (edges[b + 1] - edges[b]) * tot)]
\* bins = k equal bins over range (lo, hi), (hi - lo) a multiple of k: integer edges
LinEdges(k, lo, hi) == [b \in 1..(k + 1) |-> lo + (b - 1) * ((hi - lo) \div k)]
Histogram(a, edges, hasw, w, density) ==
  LET counts == HistCounts(a.cells, edges, hasw, w)
      nb == Len(edges) - 1
  IN Outs(<<IF density THEN O(<<nb>>, Density(counts, edges), "r") ELSE O(<<nb>>, counts, "i"),
            O(<<nb + 1>>, edges, "e")>>)          \* "r": rational cells; "e": edges, kind not compared

(* histogram2d over explicit integer edges per coordinate                      *)
Histogram2d(x, y, ex, ey, hasw, w, density) ==
  LET nx == Len(ex) - 1
      ny == Len(ey) - 1
      cnt(bx, by) == SumSeq([j \in DOMAIN x.cells |->
                        IF InBin(x.cells[j], ex, bx) /\ InBin(y.cells[j], ey, by) THEN (IF hasw THEN w[j] ELSE 1) ELSE 0])
      counts == Build(<<nx, ny>>, LAMBDA t : cnt(t[1] + 1, t[2] + 1))
      tot == SumSeq(counts.cells)
      dens == Build(<<nx, ny>>, LAMBDA t : IF tot = 0 THEN RNaN
                       ELSE RNorm(cnt(t[1] + 1, t[2] + 1), (ex[t[1] + 2] - ex[t[1] + 1]) * (ey[t[2] + 2] - ey[t[2] + 1]) * tot))
  IN Outs(<<IF density THEN O(<<nx, ny>>, dens.cells, "r") ELSE O(<<nx, ny>>, counts.cells, "f"),     \* always float64
            O(<<nx + 1>>, ex, "e"), O(<<ny + 1>>, ey, "e")>>)

-----------------------------------------------------------------------------
(* digitize / searchsorted: counting definitions                               *)
Increasing(s) == \A j \in 1..(Len(s) - 1) : s[j] <= s[j + 1]
Decreasing(s) == \A j \in 1..(Len(s) - 1) : s[j] >= s[j + 1]
Digitize(a, bins, right) ==
  IF ~Increasing(bins) /\ ~Decreasing(bins) THEN Fail
  ELSE LET inc == Increasing(bins)
           ix(v) == IF inc THEN (IF right THEN CountIf(bins, LAMBDA b : Lt(b, v)) ELSE CountIf(bins, LAMBDA b : Le(b, v)))
                    ELSE (IF right THEN CountIf(bins, LAMBDA b : Le(v, b)) ELSE CountIf(bins, LAMBDA b : Lt(v, b)))
       IN Outs(<<O(a.shape, [j \in DOMAIN a.cells |-> ix(a.cells[j])], "i")>>)

\* a: one-dimensional and sorted (NaN last); v: any shape
SearchSorted(a, v, side) ==
  Outs(<<O(v.shape, [j \in DOMAIN v.cells |->
                       IF side = "left" THEN CountIf(a.cells, LAMBDA x : Lt(x, v.cells[j]))
                       ELSE CountIf(a.cells, LAMBDA x : Le(x, v.cells[j]))], "i")>>)

IsIn(e, test, invert) ==
  Outs(<<O(e.shape, [j \in DOMAIN e.cells |->
                       LET hit == \E q \in DOMAIN test.cells : Eq(e.cells[j], test.cells[q])
                       IN IF hit # invert THEN 1 ELSE 0], "b")>>)

-----------------------------------------------------------------------------
(* non-zero cells                                                              *)
NzIdx(a) == LET ix == Idx0(a.shape) IN SelectSeq(ix, LAMBDA t : At(a, t) # 0)
ArgWhere(a) ==
  LET nz == NzIdx(a) IN
  Outs(<<O(<<Len(nz), NDim(a)>>, FlattenSeq(nz), "i")>>)
NonZero(a) ==
  LET nz == NzIdx(a) IN
  Outs([d \in 1..NDim(a) |-> O(<<Len(nz)>>, [j \in DOMAIN nz |-> nz[j][d]], "i")])
FlatNonZero(a) ==
  LET nzp == SelectSeq([q \in DOMAIN a.cells |-> q], LAMBDA q : a.cells[q] # 0)
  IN Outs(<<O(<<Len(nzp)>>, [j \in DOMAIN nzp |-> nzp[j] - 1], "i")>>)

\* count_nonzero(a, axis): axes = <<None>> (everything) or a sequence of (possibly negative) axes
CountNonZero(a, axes) ==
  LET nd == NDim(a) IN
  IF axes = <<None>> THEN Outs(<<O(<<>>, <<CountIf(a.cells, LAMBDA v : v # 0)>>, "i")>>)
  ELSE IF (\E j \in DOMAIN axes : ~AxisOK(nd, axes[j]))
          \/ Cardinality({NormAxis(nd, axes[j]) : j \in DOMAIN axes}) # Len(axes) THEN Fail
  ELSE LET red  == {NormAxis(nd, axes[j]) + 1 : j \in DOMAIN axes}
           keep == SelectSeq([d \in 1..nd |-> d], LAMBDA d : d \notin red)
           ix   == Idx0(a.shape)
       IN Outs(<<O([q \in DOMAIN keep |-> a.shape[keep[q]]],
                   Build([q \in DOMAIN keep |-> a.shape[keep[q]]],
                         LAMBDA t : Cardinality({j \in DOMAIN ix : /\ \A q \in DOMAIN keep : ix[j][keep[q]] = t[q]
                                                                   /\ At(a, ix[j]) # 0})).cells, "i")>>)

-----------------------------------------------------------------------------
(* ravel_multi_index(mi, dims): mi has one row per dimension; unravel_index     *)
RavelMulti(mi, dims) ==
  IF NDim(mi) < 1 \/ mi.shape[1] # Len(dims) THEN Fail
  ELSE LET rest == Tail(mi.shape)
           col(t) == [d \in DOMAIN dims |-> At(mi, <<d - 1>> \o t)]
       IN IF \E j \in DOMAIN mi.cells : mi.cells[j] < 0 THEN Fail
          ELSE IF \E d \in DOMAIN dims : \E t \in Rng(Idx0(rest)) : col(t)[d] >= dims[d] THEN Fail
          ELSE Outs(<<O(rest, Build(rest, LAMBDA t : Ravel(dims, col(t))).cells, "i")>>)

RECURSIVE Unravel1(_, _)
Unravel1(dims, p) == IF dims = <<>> THEN <<>>
                     ELSE LET m == ProdSeq(Tail(dims)) IN <<p \div m>> \o Unravel1(Tail(dims), p % m)
UnravelIndex(ind, dims) ==
  IF \E j \in DOMAIN ind.cells : ind.cells[j] < 0 \/ ind.cells[j] >= ProdSeq(dims) THEN Fail
  ELSE Outs([d \in DOMAIN dims |-> O(ind.shape, [j \in DOMAIN ind.cells |-> Unravel1(dims, ind.cells[j])[d]], "i")])

-----------------------------------------------------------------------------
(* coarsen(reduction, x, {axis: factor}, trim_excess): fac[d] = factor of axis d (1: not coarsened) *)
Coarsen(a, red, fac, trim) ==
  IF ~trim /\ \E d \in DOMAIN fac : a.shape[d] % fac[d] # 0 THEN Fail
  ELSE LET osh == [d \in DOMAIN fac |-> a.shape[d] \div fac[d]]
           box == Idx0(fac)
           vals(t) == [j \in DOMAIN box |-> At(a, [d \in DOMAIN fac |-> t[d] * fac[d] + box[j][d]])]
       IN Outs(<<O(osh, Build(osh, LAMBDA t : IF red = "sum" THEN SumSeq(vals(t)) ELSE MaxOfSeq(vals(t))).cells, "i")>>)

(* compress(condition, a, axis): the cells of a along `axis` where the 0/1
   sequence cond is 1; a shorter cond counts as padded with 0; axis = None
   works on the flattened array                                                *)
Compress(cond, a, axis) ==
  LET b  == IF axis = None THEN Arr(<<Size(a.shape)>>, a.cells) ELSE a
      ax == IF axis = None THEN 0 ELSE axis
      nd == NDim(b)
  IN IF ~AxisOK(nd, ax) THEN Fail
     ELSE LET d   == NormAxis(nd, ax) + 1
              n   == b.shape[d]
              sel == SelectSeq([q \in 1..Len(cond) |-> q], LAMBDA q : cond[q] # 0)
          IN IF \E j \in DOMAIN sel : sel[j] > n THEN Fail           \* a selected position beyond the axis: NumPy raises
             ELSE Outs(<<O(SetAt(b.shape, d, Len(sel)),
                           Build(SetAt(b.shape, d, Len(sel)), LAMBDA t : At(b, SetAt(t, d, sel[t[d] + 1] - 1))).cells, "i")>>)

-----------------------------------------------------------------------------
(* the inputs of a case *)
Data(c)    == Arr(c.shape, c.cells)                                  \* the data fill of the case
Ids(shape) == IdArr(shape, 0)
Weights(n) == [j \in 1..n |-> 1 + (j % 3)]                           \* fixed integer weights 2 3 1 2 3 1 ...
\* multi-index rows for ravel_multi_index, derived from the fill so that every index is valid
MultiIdx(c) == Arr(<<Len(c.dims)>> \o c.shape,
                   FlattenSeq([r \in DOMAIN c.dims |-> [j \in DOMAIN c.cells |-> (c.cells[j] + r - 1 + c.bump) % (c.dims[r] + c.over)]]))

Res(c) ==
  CASE c.op = "unique"        -> Unique(Data(c), c.ri, c.rv, c.rc)
    [] c.op = "bincount"      -> Bincount(Data(c), c.hasw, Weights(Len(c.cells)), c.minlength)
    [] c.op = "histogram"     -> Histogram(Data(c), c.edges, c.hasw, Weights(Len(c.cells)), c.density)
    [] c.op = "histogram2d"   -> Histogram2d(Data(c), Arr(c.shape, c.ycells), c.edges, c.yedges, c.hasw, Weights(Len(c.cells)), c.density)
    [] c.op = "digitize"      -> Digitize(Data(c), c.bins, c.right)
    [] c.op = "searchsorted"  -> SearchSorted(Arr(c.shape, SortSeq(c.cells, Le)), Arr(c.vshape, c.v), c.side)
    [] c.op = "isin"          -> IsIn(Data(c), Arr(c.tshape, c.test), c.invert)
    [] c.op = "argwhere"      -> ArgWhere(Data(c))
    [] c.op = "nonzero"       -> NonZero(Data(c))
    [] c.op = "flatnonzero"   -> FlatNonZero(Data(c))
    [] c.op = "count_nonzero" -> CountNonZero(Data(c), c.axes)
    [] c.op = "ravel_multi_index" -> RavelMulti(MultiIdx(c), c.dims)
    [] c.op = "unravel_index" -> UnravelIndex(Data(c), c.dims)
    [] c.op = "coarsen"       -> Coarsen(Ids(c.shape), c.red, c.fac, c.trim)
    [] c.op = "compress"      -> Compress(c.cond, Ids(c.shape), c.axis)
=============================================================================
