---------------------------- MODULE RoutinesTrace ----------------------------
(* code -> spec for C27: each record is one routine applied to real dask arrays
   (r.c = the case in the vocabulary of module Routines; the inputs were built
   from the case under the recorded chunkings) with what was observed for every
   returned array: lazy shape and chunks (unknown sizes are -1), per-block
   shapes, assembled content (NaN as the value 9, floats that are densities as
   normalised rationals), dtype class.  TLC decides every record against the
   reference semantics.                                                       *)
EXTENDS Routines, TraceIO

Known(ch) == \A j \in DOMAIN ch : ch[j] >= 0
MetaOK(o) ==
  /\ Len(o.chunks) = Len(o.cshape)
  /\ \A x \in DOMAIN o.chunks :
        Known(o.chunks[x]) => /\ SumSeq(o.chunks[x]) = o.cshape[x]
                              /\ o.lshape[x] = o.cshape[x]
  /\ o.blocksok

KindOK(want, got) == want \in {"e", "r"} \/ want = got         \* edges: values only; densities are floats by construction

OutBad(want, got) ==
  Clause("Shape", got.cshape = want.shape)
  \cup Clause("Content", got.cells = want.cells)
  \cup Clause("Kind", KindOK(want.kind, got.kind))
  \cup Clause("Meta", MetaOK(got))

Bad(r) ==
  LET w == Res(r.c) IN
  IF w.err THEN {}                 \* NumPy has no result: the property is silent
  ELSE IF r.obs.raised # "" THEN {"UnexpectedRaise"}
  ELSE IF Len(r.obs.outs) # Len(w.outs) THEN {"Arity"}
  ELSE UNION {OutBad(w.outs[k], r.obs.outs[k]) : k \in DOMAIN w.outs}

Init == TInit
Next == TNext(Bad)
=============================================================================
