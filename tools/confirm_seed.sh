#!/bin/sh
# tools/confirm_seed.sh <worktree> <patch> <demo.py> "<pytest targets>"
# confirms: demo passes on the clean worktree, patch applies, demo fails with it, the named tests still pass; reverts.
WT="$1"; P="$2"; D="$3"; T="$4"
cd "$WT" || exit 9
git checkout -q -- . ; git clean -fdq
( cd "$WT" && PYTHONPATH="$WT:$(dirname "$D")" timeout 300 /venv/bin/python "$D" >/dev/null 2>&1 ); CLEAN=$?
git apply "$P" || { echo "APPLY-FAILED $P"; exit 9; }
( cd "$WT" && PYTHONPATH="$WT:$(dirname "$D")" timeout 300 /venv/bin/python "$D" >/dev/null 2>&1 ); PATCHED=$?
TESTS=$(cd "$WT" && timeout 3000 /venv/bin/python -m pytest -q -p no:cacheprovider $T -q -n 4 2>&1 | tail -1)
git checkout -q -- . ; git clean -fdq
echo "$(basename "$P"): demo clean=$CLEAN patched=$PATCHED tests: $TESTS"
