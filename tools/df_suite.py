#!/venv/bin/python
"""tools/df_suite.py <repo-dir> <out.json> [-j N]
Runs the repository's dataframe tests of <repo-dir> through the inert pyarrow shim (tools/dfshim_plugin.py), one pytest
process per test file (xdist workers cannot load the plugin), and writes {test id: outcome}.  Used to compare the tree
with the dataframe `fix:` commits against the tree without them; never part of a registered check."""
import glob, json, os, subprocess, sys, tempfile
import xml.etree.ElementTree as ET
from concurrent.futures import ThreadPoolExecutor

repo, out = sys.argv[1], sys.argv[2]
j = int(sys.argv[sys.argv.index("-j") + 1]) if "-j" in sys.argv else 8
files = sorted(glob.glob(os.path.join(repo, "dask/dataframe/**/tests/test_*.py"), recursive=True))
files = [f for f in files if "parquet" not in f and "test_distributed" not in f]
tmp = tempfile.mkdtemp(prefix="dfsuite-", dir="/tmp")


def one(f):
    x = os.path.join(tmp, f.replace("/", "_") + ".xml")
    env = dict(os.environ, PYTHONPATH="/verif/tools", DASK_TEMPORARY_DIRECTORY=tmp)
    subprocess.run(["/venv/bin/python", "-m", "pytest", "-q", "-p", "no:cacheprovider", "-p", "dfshim_plugin", "-p", "no:xdist",
                    os.path.relpath(f, repo), "--junitxml", x, "-x" if False else "-q"], cwd=repo, env=env,
                   stdout=subprocess.DEVNULL, stderr=subprocess.DEVNULL, timeout=5400)
    res = {}
    if os.path.exists(x):
        for tc in ET.parse(x).getroot().iter("testcase"):
            tid = "%s::%s" % (tc.get("classname"), tc.get("name"))
            kinds = [c.tag for c in tc]
            res[tid] = "failed" if "failure" in kinds else "error" if "error" in kinds else "skipped" if "skipped" in kinds else "passed"
    else:
        res[os.path.relpath(f, repo)] = "no-report"
    return res


allres = {}
with ThreadPoolExecutor(j) as ex:
    for r in ex.map(one, files):
        allres.update(r)
json.dump(allres, open(out, "w"))
import collections, shutil
print(collections.Counter(allres.values()))
shutil.rmtree(tmp, ignore_errors=True)
