#!/venv/bin/python
"""tools/save_seed.py <outdir> <seed-id> "<needs>" "<confirmed>" "<detected_by>"
Copies <outdir>/<id>.diff, <id>-demo.py, <id>.md into seeded/<id>/ and writes meta.json."""
import json, os, shutil, sys

out, sid, needs, confirmed, detected = sys.argv[1:6]
d = f"/verif/seeded/{sid}"
os.makedirs(d, exist_ok=True)
shutil.copy(f"{out}/{sid}.diff", f"{d}/patch.diff")
shutil.copy(f"{out}/{sid}-demo.py", f"{d}/demo.py")
if os.path.exists(f"{out}/{sid}.md"):
    shutil.copy(f"{out}/{sid}.md", f"{d}/notes.md")
prop = sid.split("-")[0]
json.dump({"id": sid, "property": prop, "needs_to_manifest": needs,
           "written_by": "independent sub-agent given only the property text and a scratch worktree",
           "confirmed": confirmed, "detected_by": detected,
           "how_run": f"tools/try_seed.sh seeded/{sid}/patch.diff {prop}"},
          open(f"{d}/meta.json", "w"), indent=1)
print("saved", d)
