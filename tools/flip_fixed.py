#!/venv/bin/python
"""tools/flip_fixed.py <Cxx> <signature (exact, or prefix ending with *)> <commit-hash>
Marks matching known findings of known_findings.d/<Cxx>.json (or known_findings.json) as fixed by the given /repo commit.
A fixed entry suppresses nothing: the check reports the violation again if it ever returns."""
import glob, json, subprocess, sys

prop, sig, commit = sys.argv[1:4]
subject = subprocess.check_output(["git", "-C", "/repo", "log", "-1", "--format=%s", commit], text=True).strip()
short = subprocess.check_output(["git", "-C", "/repo", "log", "-1", "--format=%h", commit], text=True).strip()
n = 0
for f in ["known_findings.json"] + sorted(glob.glob("known_findings.d/*.json")):
    d = json.load(open(f))
    ch = False
    for e in d["findings"]:
        if e["property"] != prop or e.get("status") == "fixed":
            continue
        s = e["signature"]
        if s == sig or (sig.endswith("*") and s.startswith(sig[:-1])):
            what = e["what"]
            e["status"] = "fixed"
            e["what"] = f"fixed: property={prop} {short} {what}"
            e["commit"] = subject
            ch = True
            n += 1
            print("flipped", f, s)
    if ch:
        json.dump(d, open(f, "w"), indent=1, ensure_ascii=False)
        open(f, "a").write("\n")
print(n, "entries")
