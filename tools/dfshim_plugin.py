"""pytest plugin (-p dfshim_plugin, PYTHONPATH=/verif/tools): lets the repository's dataframe tests import without
pyarrow by putting the inert shim on sys.path after pandas was imported.  Used only to compare a patched tree with
the unpatched one when a dataframe `fix:` is applied (tools/apply_fix_df.sh); never part of a registered check."""
import sys

import pandas  # noqa: F401

sys.path.append("/verif/harness/shims")
import dask  # noqa: E402

dask.config.set({"dataframe.convert-string": False})
