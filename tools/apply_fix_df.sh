#!/bin/sh
# tools/apply_fix_df.sh <name> "<subject>" "<pytest targets>" "<body>"
# Like apply_fix.sh, for fixes whose tests need dask.dataframe (pyarrow is absent): the targets are run through the
# inert pyarrow shim before and after the patch and the set of failing tests after must be a subset of before.
N="$1"; MSG="$2"; T="$3"
cd /repo || exit 9
git diff --quiet || { echo "/repo dirty"; exit 9; }
git apply --check "/verif/proposed_fixes/$N.diff" || { echo "DOES-NOT-APPLY $N"; exit 8; }
run() { PYTHONPATH=/verif/tools timeout 3000 /venv/bin/python -m pytest -q -p no:cacheprovider -p dfshim_plugin $T -q -n 6 -rfE 2>&1 | grep -E "^(FAILED|ERROR) " | sed 's/ - .*//' | sort -u; }
KEY=$(echo "$(git rev-parse HEAD) $T" | md5sum | cut -c1-12)
[ -f /tmp/dfbase-$KEY ] || run > /tmp/dfbase-$KEY
git apply "/verif/proposed_fixes/$N.diff"
run > /tmp/dfpost-$KEY
NEW=$(comm -13 /tmp/dfbase-$KEY /tmp/dfpost-$KEY)
echo "base-fail=$(wc -l < /tmp/dfbase-$KEY) post-fail=$(wc -l < /tmp/dfpost-$KEY)"
if [ -n "$NEW" ]; then echo "TESTS-FAILED $N: reverting"; echo "$NEW" | head; git checkout -- .; exit 7; fi
git commit -qam "fix: $MSG

$4" && git log --oneline | head -1
