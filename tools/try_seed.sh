#!/bin/sh
# tools/try_seed.sh <patch.diff> <Cxx> [tier]  : apply a seeded change to /repo, run the check, undo the change
P="$1"; C="$2"; T="${3:-quick}"
cd /repo && git diff --quiet || { echo "/repo is dirty"; exit 9; }
trap 'git -C /repo checkout -- .' EXIT INT TERM
git -C /repo apply "$P" || { echo "patch does not apply"; exit 9; }
cd /verif && timeout 1500 ./check "$C" --tier "$T" > /tmp/try_seed.out 2>&1; RC=$?
git -C /repo checkout -- . 
grep -E "^VIOLATION|^KNOWN|MACHINERY|tier=" /tmp/try_seed.out | cut -c1-230 | head -8
echo "exit=$RC"
rm -f /verif/replays/$C-*.json
exit $RC
