#!/bin/sh
# tools/try_seed.sh <patch.diff> <Cxx> [tier]
# Runs a check against a seeded change WITHOUT touching /repo while builders share it: the patch is
# applied in a throw-away worktree of /repo's HEAD and the check is pointed at it with VERIF_REPO.
# (Equivalent to: git -C /repo apply <patch>; ./check Cxx; git -C /repo checkout -- .)
P="$(readlink -f "$1")"; C="$2"; T="${3:-quick}"
WT="/tmp/seedrun-$$"
git -C /repo worktree add -q --detach "$WT" HEAD || exit 9
trap 'git -C /repo worktree remove --force "$WT" >/dev/null 2>&1' EXIT INT TERM
git -C "$WT" apply "$P" || { echo "patch does not apply"; exit 9; }
# (the evidence file describes runs on /repo itself: keep it, the seeded run's evidence goes to /tmp)
[ -f /verif/evidence/$C.json ] && cp /verif/evidence/$C.json /tmp/try_seed.$$.evidence
cd /verif && VERIF_REPO="$WT" timeout 2400 ./check "$C" --tier "$T" > /tmp/try_seed.$$.out 2>&1; RC=$?
[ -f /tmp/try_seed.$$.evidence ] && mv /tmp/try_seed.$$.evidence /verif/evidence/$C.json
grep -E "^VIOLATION|MACHINERY|tier=" /tmp/try_seed.$$.out | cut -c1-230 | head -8
echo "exit=$RC"
rm -f /tmp/try_seed.$$.out /verif/replays/$C-*.json
exit $RC
