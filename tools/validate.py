#!/usr/bin/env python3-vt
"""Validate MANIFEST.json and every evidence file against the schemas in /root/.vp (needs jsonschema: run with python3-vt)."""
import glob, json, sys, jsonschema
bad = 0
man = json.load(open("/verif/MANIFEST.json"))
jsonschema.validate(man, json.load(open("/root/.vp/MANIFEST.schema.json")))
ev_schema = json.load(open("/root/.vp/EVIDENCE.schema.json"))
claimed = {c["property_id"] for c in man["checks"]}
for c in sorted(claimed):
    try:
        ev = json.load(open("/verif/evidence/%s.json" % c))
        jsonschema.validate(ev, ev_schema)
        assert ev["property_id"] == c
    except Exception as ex:
        bad += 1
        print("evidence for", c, "invalid:", str(ex)[:300])
ids = [json.loads(l)["id"] for l in open("/verif/properties.jsonl")]
na = {x["property_id"] for x in man.get("not_applicable", [])}
assert claimed | na == set(ids) and not (claimed & na), "every property must be claimed or listed not_applicable"
print("manifest ok; %d claimed; %d evidence problems" % (len(claimed), bad))
sys.exit(1 if bad else 0)
