#!/venv/bin/python
"""Regenerate MANIFEST.json from the META dict of every driver in harness/drivers and tools/not_applicable.json."""
import importlib, json, os, re, subprocess, sys
ROOT = os.path.dirname(os.path.dirname(os.path.abspath(__file__)))
sys.path[:0] = [ROOT, "/repo"]
props = [json.loads(l) for l in open(os.path.join(ROOT, "properties.jsonl"))]
checks, claimed = [], []
registered = set(open(os.path.join(ROOT, "tools", "registered.txt")).read().split())
for p in props:
    pid = p["id"]
    if not os.path.exists(os.path.join(ROOT, "harness", "drivers", pid + ".py")):
        continue
    mod = importlib.import_module("harness.drivers." + pid)
    m = getattr(mod, "META", None)
    if not m or pid not in registered:
        continue
    claimed.append(pid)
    checks.append({
        "property_id": pid,
        "quick_cmd": "./check %s --tier quick" % pid,
        "thorough_cmd": "./check %s --tier thorough" % pid,
        "evidence_file": "evidence/%s.json" % pid,
        "replay_cmd_template": "./check %s --replay {path}" % pid,
        "engine": "tlc-conformance",
        "level_claimed": {"category": getattr(mod, "LEVEL", "model_checking"), "text": m["level_text"], "design_ref": m["design_ref"]},
        "level_note": m["level_note"],
        "technique": m["technique"],
    })
na_path = os.path.join(ROOT, "tools", "not_applicable.json")
na = json.load(open(na_path)) if os.path.exists(na_path) else {}
default_reason = ("not claimed yet: the TLA+ specification and conformance driver for this property are not built in the committed "
                  "tree (DESIGN.md section 4 describes the planned check); nothing is asserted about it")
not_app = [{"property_id": p["id"], "reason": na.get(p["id"], default_reason)} for p in props if p["id"] not in claimed]
hooks_commits = [l.strip() for l in open(os.path.join(ROOT, "tools", "hook_commits.txt"))] if os.path.exists(os.path.join(ROOT, "tools", "hook_commits.txt")) else []
man = {
    "version": 1,
    "setup_cmd": "./check --setup",
    "hooks": {
        "guard": "DASK_VERIF_TRACE",
        "enable": "no build step: checks import /repo's working tree directly (PYTHONPATH=/repo); observation is through public callbacks/APIs; "
                  "hooks listed in source_commits (if any) are active only when DASK_VERIF_TRACE=1",
        "baseline_off_cmd": "cd /repo && /venv/bin/python -m pytest -ra -q -p no:cacheprovider --timeout=900 --continue-on-collection-errors",
        "source_commits": hooks_commits,
        "add_only": True,
    },
    "engines": [{"name": "tlc-conformance", "path": "check", "serves_properties": claimed,
                 "kind_free_text": "explicit TLA+ specifications model-checked by TLC; bound to the code by replaying TLC-enumerated cases/behaviours "
                                   "into dask and by TLC validation of traces/call records recorded from dask"}],
    "checks": checks,
    "not_applicable": not_app,
    "notes": "See DESIGN.md. Exit 0 = held on everything explored; exit 1 + VIOLATION line = violation; exit 2 = machinery failure. "
             "KNOWN-FINDING lines refer to known_findings.json and known_findings.d/*.json (ledger: FINDINGS.md); seeded changes: seeded/, SEEDED.md.",
}
json.dump(man, open(os.path.join(ROOT, "MANIFEST.json"), "w"), indent=1)
print("MANIFEST.json: %d checks, %d not claimed" % (len(checks), len(not_app)))
