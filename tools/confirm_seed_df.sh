#!/bin/sh
# tools/confirm_seed_df.sh <worktree> <patch> <demo.py> "<test files>" <baseline.json from tools/df_suite.py>
# Dataframe variant of confirm_seed.sh: the repository's dataframe tests only import through the inert pyarrow shim, so the
# named test files are run through tools/dfshim_plugin.py (one process, no xdist) and the failing test ids are compared with
# the failures of the unpatched tree recorded by tools/df_suite.py.  Demos find the shim under /tmp/pyarrow-shim.
WT="$1"; P="$2"; D="$3"; T="$4"; BASE="$5"
cd "$WT" || exit 9
git checkout -q -- . ; git clean -fdq
[ -d /tmp/pyarrow-shim ] || { mkdir -p /tmp/pyarrow-shim; cp -r /verif/harness/shims/pyarrow* /tmp/pyarrow-shim/; }
( PYTHONPATH="$WT" timeout 600 /venv/bin/python "$D" >/dev/null 2>&1 ); CLEAN=$?
git apply "$P" || { echo "APPLY-FAILED $P"; exit 9; }
( PYTHONPATH="$WT" timeout 600 /venv/bin/python "$D" >/dev/null 2>&1 ); PATCHED=$?
X=/tmp/confdf-$$.xml
PYTHONPATH=/verif/tools timeout 3000 /venv/bin/python -m pytest -q -p no:cacheprovider -p dfshim_plugin -p no:xdist $T --junitxml $X >/dev/null 2>&1
NEW=$(/venv/bin/python - "$X" "$BASE" <<'PY'
import json, sys
import xml.etree.ElementTree as ET
base = json.load(open(sys.argv[2]))
new, n = [], 0
for tc in ET.parse(sys.argv[1]).getroot().iter("testcase"):
    n += 1
    tid = "%s::%s" % (tc.get("classname"), tc.get("name"))
    kinds = [c.tag for c in tc]
    if ("failure" in kinds or "error" in kinds) and base.get(tid) not in ("failed", "error"):
        new.append(tid)
print("%d tests, %d new failures %s" % (n, len(new), new[:3]))
PY
)
rm -f $X
git checkout -q -- . ; git clean -fdq
echo "$(basename "$P"): demo clean=$CLEAN patched=$PATCHED tests: $NEW"
