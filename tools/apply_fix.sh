#!/bin/sh
# tools/apply_fix.sh <name-under-proposed_fixes> "<commit subject after 'fix: '>" "<pytest targets>" "<body>"
N="$1"; MSG="$2"; T="$3"
cd /repo || exit 9
git diff --quiet || { echo "/repo dirty"; exit 9; }
git apply --check "/verif/proposed_fixes/$N.diff" || { echo "DOES-NOT-APPLY $N"; exit 8; }
git apply "/verif/proposed_fixes/$N.diff"
OUT=$(timeout 3000 /venv/bin/python -m pytest -q -p no:cacheprovider $T -q -n 4 2>&1 | tail -3)
echo "$OUT" | tail -1
if echo "$OUT" | tail -1 | grep -q -E "[0-9]+ failed|[0-9]+ error"; then echo "TESTS-FAILED $N: reverting"; echo "$OUT"; git checkout -- .; exit 7; fi
BODY="$4"
git commit -qam "fix: $MSG

$BODY" && git log --oneline | head -1
